//! Program generators. Every generator is a deterministic function of its `Rng`.
use crate::ast::*;
use crate::term::{T, V};
use crate::util::Rng;

#[derive(Clone, Debug)]
pub struct TreeCfg {
    /// number of query variables
    pub nq: usize,
    pub min_goals: usize,
    pub max_goals: usize,
    pub depth: usize,
    pub compounds: bool,
    pub conde: bool,
    pub fresh: bool,
    pub diseq: bool,
    pub any: bool,
    /// inject subsuming / duplicate disequality pairs
    pub hostile_diseq: bool,
    pub max_conde_clauses: usize,
    pub nesting: usize,
}

impl Default for TreeCfg {
    fn default() -> TreeCfg {
        TreeCfg { nq: 2, min_goals: 2, max_goals: 5, depth: 2, compounds: false, conde: true, fresh: true, diseq: true, any: false, hostile_diseq: true, max_conde_clauses: 3, nesting: 2 }
    }
}

pub fn atoms() -> Vec<T> {
    vec![T::Int(1), T::Int(2), T::Char('a'), T::s("s"), T::Bool(true)]
}

pub struct TreeGen<'a> {
    pub rng: &'a mut Rng,
    pub cfg: TreeCfg,
    pub next_var: V,
}

impl<'a> TreeGen<'a> {
    pub fn new(rng: &'a mut Rng, cfg: TreeCfg) -> TreeGen<'a> {
        TreeGen { rng, cfg, next_var: 0 }
    }

    pub fn new_var(&mut self) -> V {
        let v = self.next_var;
        self.next_var += 1;
        v
    }

    pub fn atom(&mut self) -> T {
        let a = atoms();
        // few distinct atoms so that collisions (and hence interesting constraints) are common
        let k = if self.rng.chance(3, 4) { self.rng.below(2) } else { self.rng.below(a.len()) };
        a[k].clone()
    }

    pub fn term(&mut self, scope: &[V], depth: usize) -> T {
        let r = self.rng.below(100);
        if depth == 0 || r < 30 {
            if !scope.is_empty() && self.rng.chance(3, 5) {
                return T::Var(*self.rng.pick(scope));
            }
            if self.cfg.any && self.rng.chance(1, 10) {
                return T::Any;
            }
            return self.atom();
        }
        if r < 60 && !scope.is_empty() {
            return T::Var(*self.rng.pick(scope));
        }
        if self.cfg.compounds && r >= 85 {
            let k = self.rng.below(5);
            return match k {
                0 => T::Comp("Pair", vec![self.term(scope, depth - 1), self.term(scope, depth - 1)]),
                1 => T::Comp("Triple", vec![self.term(scope, depth - 1), self.term(scope, depth - 1), self.term(scope, depth - 1)]),
                2 => T::Comp("Named", vec![self.term(scope, depth - 1), self.term(scope, depth - 1)]),
                3 => T::Comp("", vec![self.term(scope, depth - 1), self.term(scope, depth - 1)]),
                _ => T::Comp("Some", vec![self.term(scope, depth - 1)]),
            };
        }
        // list: proper or improper, length 0..=2
        let n = self.rng.below(3);
        let items: Vec<T> = (0..n).map(|_| self.term(scope, depth - 1)).collect();
        if n > 0 && self.rng.chance(1, 3) {
            let tail = if !scope.is_empty() && self.rng.chance(2, 3) { T::Var(*self.rng.pick(scope)) } else { self.atom() };
            T::improper(items, tail)
        } else {
            T::list(items)
        }
    }

    fn simple_goal(&mut self, scope: &[V]) -> G {
        let d = self.cfg.depth;
        let a = self.term(scope, d);
        let b = self.term(scope, d);
        if self.cfg.diseq && self.rng.chance(2, 5) {
            G::Diseq(a, b)
        } else {
            // make sure variables get bound reasonably often
            if !scope.is_empty() && self.rng.chance(1, 2) {
                G::Eq(T::Var(*self.rng.pick(scope)), b)
            } else {
                G::Eq(a, b)
            }
        }
    }

    pub fn goal(&mut self, scope: &mut Vec<V>, nesting: usize) -> G {
        let r = self.rng.below(100);
        if nesting > 0 && self.cfg.conde && r < 18 {
            let nc = 2 + self.rng.below(self.cfg.max_conde_clauses.max(2) - 1);
            let mut cs = vec![];
            for _ in 0..nc {
                let ng = 1 + self.rng.below(2);
                let c: Vec<G> = (0..ng).map(|_| self.goal(scope, nesting - 1)).collect();
                cs.push(c);
            }
            return G::Conde(cs);
        }
        if nesting > 0 && self.cfg.fresh && r < 30 {
            let nv = 1 + self.rng.below(2);
            let vs: Vec<V> = (0..nv).map(|_| self.new_var()).collect();
            let mut inner = scope.clone();
            inner.extend(vs.iter().copied());
            let ng = 1 + self.rng.below(3);
            let body: Vec<G> = (0..ng).map(|_| self.goal(&mut inner, nesting - 1)).collect();
            return G::Fresh(vs, body);
        }
        if nesting > 0 && r < 35 {
            let ng = 1 + self.rng.below(3);
            let body: Vec<G> = (0..ng).map(|_| self.goal(scope, nesting - 1)).collect();
            return G::Conj(body);
        }
        if r < 38 {
            return if self.rng.chance(2, 3) { G::Succeed } else { G::Fail };
        }
        self.simple_goal(scope)
    }

    /// Pairs of disequalities where one subsumes the other, duplicates, and later bindings that
    /// decide them; inserted in random positions.
    fn hostile_diseqs(&mut self, scope: &[V], body: &mut Vec<G>) {
        if scope.len() < 2 {
            return;
        }
        let x = T::Var(scope[self.rng.below(scope.len())]);
        let y = T::Var(scope[self.rng.below(scope.len())]);
        let a = self.atom();
        let b = self.atom();
        let weak = G::Diseq(T::list(vec![x.clone(), y.clone()]), T::list(vec![a.clone(), b.clone()]));
        let strong = G::Diseq(x.clone(), a.clone());
        let mut extra: Vec<G> = vec![];
        match self.rng.below(4) {
            0 => {
                extra.push(strong);
                extra.push(weak);
            }
            1 => {
                extra.push(weak);
                extra.push(strong);
            }
            2 => {
                extra.push(weak.clone());
                extra.push(weak);
            }
            _ => {
                extra.push(G::Diseq(T::Comp("Pair", vec![x.clone(), y.clone()]), T::Comp("Pair", vec![a.clone(), b.clone()])));
                extra.push(strong);
            }
        }
        if !self.cfg.compounds {
            extra.retain(|g| !matches!(g, G::Diseq(T::Comp(..), _)));
        }
        if self.rng.chance(2, 3) {
            extra.push(G::Eq(x.clone(), if self.rng.chance(2, 3) { a.clone() } else { self.atom() }));
        }
        if self.rng.chance(1, 2) {
            extra.push(G::Eq(y.clone(), if self.rng.chance(1, 2) { b.clone() } else { self.atom() }));
        }
        for g in extra {
            let pos = self.rng.below(body.len() + 1);
            body.insert(pos, g);
        }
    }

    pub fn program(&mut self) -> Program {
        let qvars: Vec<V> = (0..self.cfg.nq).map(|_| self.new_var()).collect();
        let mut scope = qvars.clone();
        let n = self.cfg.min_goals + self.rng.below(self.cfg.max_goals - self.cfg.min_goals + 1);
        let nesting = self.cfg.nesting;
        let mut body: Vec<G> = (0..n).map(|_| self.goal(&mut scope, nesting)).collect();
        if self.cfg.hostile_diseq && self.cfg.diseq && self.rng.chance(1, 3) {
            self.hostile_diseqs(&scope.clone(), &mut body);
        }
        Program::new(qvars, body)
    }
}

/// Apply a permutation chosen by `rng` to every conjunction and disjunction of the goal list
/// (conjunct order and clause order), recursively.
pub fn permute_goals(rng: &mut Rng, gs: &[G], conj: bool, disj: bool) -> Vec<G> {
    let mut out: Vec<G> = gs.iter().map(|g| permute_goal(rng, g, conj, disj)).collect();
    if conj {
        rng.shuffle(&mut out);
    }
    out
}

fn permute_clauses(rng: &mut Rng, cs: &[Vec<G>], conj: bool, disj: bool, is_disj: bool) -> Vec<Vec<G>> {
    let mut out: Vec<Vec<G>> = cs.iter().map(|c| permute_goals(rng, c, conj, disj)).collect();
    if (is_disj && disj) || (!is_disj && conj) {
        rng.shuffle(&mut out);
    }
    out
}

pub fn permute_goal(rng: &mut Rng, g: &G, conj: bool, disj: bool) -> G {
    match g {
        G::Conj(gs) => G::Conj(permute_goals(rng, gs, conj, disj)),
        G::Fresh(vs, gs) => G::Fresh(vs.clone(), permute_goals(rng, gs, conj, disj)),
        G::Conde(cs) => G::Conde(permute_clauses(rng, cs, conj, disj, true)),
        G::Cond(cs) => G::Cond(permute_clauses(rng, cs, conj, disj, true)),
        G::Dfs(cs) => G::Dfs(permute_clauses(rng, cs, conj, disj, false)),
        other => other.clone(),
    }
}

pub fn permute_program(rng: &mut Rng, p: &Program, conj: bool, disj: bool) -> Program {
    Program { rels: p.rels.clone(), qvars: p.qvars.clone(), body: permute_goals(rng, &p.body, conj, disj) }
}

/// Reorder the top-level body by an explicit permutation.
pub fn reorder_top(p: &Program, perm: &[usize]) -> Program {
    Program { rels: p.rels.clone(), qvars: p.qvars.clone(), body: perm.iter().map(|i| p.body[*i].clone()).collect() }
}

// ---------------------------------------------------------------------------------------------
// CLP(FD) programs

#[derive(Clone, Debug)]
pub struct FdCfg {
    pub max_vars: usize,
    pub max_cons: usize,
    /// query variable shapes: plain integers only, or also lists / compounds of FD variables
    pub structured_query: bool,
    pub allow_conde: bool,
    /// exclude programs that post distinctfd (kept separate so findings can be keyed)
    pub distinct: bool,
}

impl Default for FdCfg {
    fn default() -> FdCfg {
        FdCfg { max_vars: 4, max_cons: 6, structured_query: false, allow_conde: true, distinct: true }
    }
}

/// Random well-formed FD program: every variable gets a domain somewhere in the conjunction
/// (before or after the constraints that mention it), operands are variables or integers,
/// arbitrary operand aliasing, hidden variables, `==` between FD variables and numbers.
pub fn fd_program(rng: &mut Rng, cfg: &FdCfg) -> Program {
    let nv = 1 + rng.below(cfg.max_vars);
    let nq = 1 + rng.below(nv);
    let lo = -(rng.below(4) as i64);
    let hi = 1 + rng.below(4) as i64;
    let vars: Vec<V> = (0..nv as V).collect();
    let operand = |rng: &mut Rng| -> T {
        if rng.chance(1, 5) {
            T::Int(rng.range(lo, hi))
        } else {
            T::Var(vars[rng.below(nv)])
        }
    };
    let ncons = 1 + rng.below(cfg.max_cons);
    let mut body: Vec<G> = vec![];
    for _ in 0..ncons {
        let a = operand(rng);
        let b = operand(rng);
        let c = operand(rng);
        let g = match rng.below(10) {
            0 => G::Ltefd(a, b),
            1 => G::Ltfd(a, b),
            2 => G::Plusfd(a, b, c),
            3 => G::Minusfd(a, b, c),
            4 | 5 => G::Timesfd(a, b, c),
            6 => G::Diseqfd(a, b),
            7 => G::Eq(a, b),
            8 if cfg.distinct => {
                let k = 2 + rng.below(nv.max(2));
                G::Distinctfd(T::list((0..k).map(|_| operand(rng)).collect()))
            }
            _ => G::Ltefd(a, b),
        };
        body.push(g);
    }
    if cfg.allow_conde && rng.chance(1, 6) {
        // a small disjunction of bindings (several states reach the later constraints)
        let x = T::Var(vars[rng.below(nv)]);
        let k = 2 + rng.below(2);
        let cs: Vec<Vec<G>> = (0..k).map(|_| vec![G::Eq(x.clone(), T::Int(rng.range(lo, hi)))]).collect();
        let pos = rng.below(body.len() + 1);
        body.insert(pos, G::Conde(cs));
    }
    // every variable gets a domain, at a random position
    let mut grouped: Vec<V> = vec![];
    for v in vars.iter() {
        if rng.chance(1, 4) {
            grouped.push(*v);
            continue;
        }
        let dom: Vec<i64> = if rng.chance(1, 3) { (lo..=hi).filter(|_| !rng.chance(1, 3)).collect() } else { (lo..=hi).collect() };
        let dom = if dom.is_empty() { vec![lo] } else { dom };
        let contiguous = dom.windows(2).all(|w| w[1] == w[0] + 1);
        let g = if contiguous && rng.chance(2, 3) {
            G::InFdRange(T::Var(*v), dom[0], *dom.last().unwrap())
        } else {
            let mut d = dom.clone();
            if rng.chance(1, 4) {
                // unsorted, duplicated vectors
                let extra = d[rng.below(d.len())];
                d.push(extra);
                rng.shuffle(&mut d);
            }
            G::InFd(T::Var(*v), d)
        };
        let pos = rng.below(body.len() + 1);
        body.insert(pos, g);
    }
    if !grouped.is_empty() {
        let pos = rng.below(body.len() + 1);
        body.insert(pos, G::InFdRange(T::list(grouped.iter().map(|v| T::Var(*v)).collect()), lo, hi));
    }
    if rng.chance(1, 4) {
        // one or two further domains on variables that already have one (the domains are
        // intersected); biased towards interleaving sparse sets whose meet may be empty
        for _ in 0..1 + rng.below(2) {
            let v = vars[rng.below(nv)];
            let par = rng.below(2) as i64;
            let d: Vec<i64> = match rng.below(4) {
                0 | 1 => (lo..=hi).filter(|x| (x - lo) % 2 == par).collect(),
                2 => (lo..=hi).filter(|_| rng.chance(1, 2)).collect(),
                _ => vec![rng.range(lo, hi)],
            };
            if d.is_empty() {
                continue;
            }
            let pos = rng.below(body.len() + 1);
            body.insert(pos, G::InFd(T::Var(v), d));
        }
    }
    let hidden: Vec<V> = vars[nq..].to_vec();
    let mut qvars: Vec<V> = vars[..nq].to_vec();
    if cfg.structured_query && rng.chance(1, 2) {
        // bind a new query variable to a list / compound holding the visible FD variables
        let q = nv as V;
        let items: Vec<T> = qvars.iter().map(|v| T::Var(*v)).collect();
        let t = match rng.below(4) {
            0 => T::list(items),
            1 if items.len() == 2 => T::pair(items[0].clone(), items[1].clone()),
            2 => T::list(vec![T::Comp("Some", vec![T::list(items)])]),
            _ => T::improper(vec![T::Int(0)], T::list(items)),
        };
        let mut all_hidden = qvars.clone();
        all_hidden.extend(hidden.iter().copied());
        let pos = rng.below(body.len() + 1);
        body.insert(pos, G::Eq(T::Var(q), t));
        qvars = vec![q];
        return Program::new(qvars, vec![G::Fresh(all_hidden, body)]);
    }
    if hidden.is_empty() {
        Program::new(qvars, body)
    } else {
        Program::new(qvars, vec![G::Fresh(hidden, body)])
    }
}

// ---------------------------------------------------------------------------------------------
// Search programs (finite trees): nested disjunctions, multi-answer conjunctions, library and
// generated recursive relations, pattern matching. All disjunctions are `Cond` (mode-inferred),
// so the same AST can be run breadth-first and, wrapped in `Dfs`, depth-first.

#[derive(Clone, Debug)]
pub struct SearchCfg {
    pub nq: usize,
    pub min_goals: usize,
    pub max_goals: usize,
    pub nesting: usize,
    pub max_clauses: usize,
    pub rels: bool,
    pub recursive: bool,
    pub matches: bool,
    pub diseq: bool,
}

impl Default for SearchCfg {
    fn default() -> SearchCfg {
        SearchCfg { nq: 2, min_goals: 1, max_goals: 4, nesting: 3, max_clauses: 6, rels: true, recursive: true, matches: true, diseq: true }
    }
}

pub struct SearchGen<'a> {
    pub rng: &'a mut Rng,
    pub cfg: SearchCfg,
    pub next_var: V,
    pub rels: Vec<RelDef>,
}

impl<'a> SearchGen<'a> {
    pub fn new(rng: &'a mut Rng, cfg: SearchCfg) -> SearchGen<'a> {
        SearchGen { rng, cfg, next_var: 0, rels: vec![] }
    }
    fn new_var(&mut self) -> V {
        let v = self.next_var;
        self.next_var += 1;
        v
    }
    fn atom(&mut self) -> T {
        let a = [T::Int(1), T::Int(2), T::Int(3), T::Char('a'), T::s("s")];
        let k = if self.rng.chance(2, 3) { self.rng.below(3) } else { self.rng.below(a.len()) };
        a[k].clone()
    }
    fn ground_list(&mut self, max: usize) -> T {
        let n = self.rng.below(max + 1);
        T::list((0..n).map(|_| self.atom()).collect())
    }
    fn var_or_atom(&mut self, scope: &[V]) -> T {
        if !scope.is_empty() && self.rng.chance(2, 3) {
            T::Var(*self.rng.pick(scope))
        } else {
            self.atom()
        }
    }
    fn small_term(&mut self, scope: &[V]) -> T {
        match self.rng.below(6) {
            0 => {
                let a = self.var_or_atom(scope);
                let b = self.var_or_atom(scope);
                T::list(vec![a, b])
            }
            1 => {
                let a = self.var_or_atom(scope);
                let b = self.var_or_atom(scope);
                T::improper(vec![a], b)
            }
            _ => self.var_or_atom(scope),
        }
    }
    /// Two fixed shapes of structurally recursive relations over a proper list, with random
    /// constants: they terminate on every list of bounded length.
    fn make_rel(&mut self) -> usize {
        let k = self.rels.len();
        let (l, out, h, t, o2) = (900 + 10 * k as V, 901 + 10 * k as V, 902 + 10 * k as V, 903 + 10 * k as V, 904 + 10 * k as V);
        let body = if self.rng.chance(1, 2) {
            // relk(l, out): out is an element of l, or the constant c when l is empty  (member-like, multi-answer)
            let c = self.atom();
            vec![G::Cond(vec![
                vec![G::Eq(T::Var(l), T::Nil), G::Eq(T::Var(out), c)],
                vec![G::Fresh(vec![h, t], vec![G::Eq(T::Var(l), T::cons(T::Var(h), T::Var(t))), G::Cond(vec![vec![G::Eq(T::Var(out), T::Var(h))], vec![G::RecCall(k, vec![T::Var(t), T::Var(out)])]])])],
            ])]
        } else {
            // relk(l, out): out is l with every element paired with a constant (map-like, deterministic, builds structure)
            let c = self.atom();
            vec![G::Cond(vec![
                vec![G::Eq(T::Var(l), T::Nil), G::Eq(T::Var(out), T::Nil)],
                vec![G::Fresh(vec![h, t, o2], vec![G::Eq(T::Var(l), T::cons(T::Var(h), T::Var(t))), G::Eq(T::Var(out), T::cons(T::list(vec![T::Var(h), c]), T::Var(o2))), G::RecCall(k, vec![T::Var(t), T::Var(o2)])])],
            ])]
        };
        self.rels.push(RelDef { params: vec![l, out], body });
        k
    }

    pub fn goal(&mut self, scope: &mut Vec<V>, nesting: usize) -> G {
        let r = self.rng.below(100);
        if nesting > 0 && r < 26 {
            let nc = 2 + self.rng.below(self.cfg.max_clauses - 1);
            let mut cs = vec![];
            for _ in 0..nc {
                let c: Vec<G> = match self.rng.below(10) {
                    0 => vec![G::Succeed],
                    1 => vec![G::Fail],
                    2 => vec![G::Succeed, G::Succeed],
                    _ => {
                        let ng = 1 + self.rng.below(2);
                        (0..ng).map(|_| self.goal(scope, nesting - 1)).collect()
                    }
                };
                cs.push(c);
            }
            return G::Cond(cs);
        }
        if nesting > 0 && r < 34 {
            let ng = 1 + self.rng.below(3);
            return G::Conj((0..ng).map(|_| self.goal(scope, nesting - 1)).collect());
        }
        if nesting > 0 && r < 44 {
            let nv = 1 + self.rng.below(2);
            let vs: Vec<V> = (0..nv).map(|_| self.new_var()).collect();
            let mut inner = scope.clone();
            inner.extend(vs.iter().copied());
            let ng = 1 + self.rng.below(3);
            let body: Vec<G> = (0..ng).map(|_| self.goal(&mut inner, nesting - 1)).collect();
            return G::Fresh(vs, body);
        }
        if self.cfg.rels && r < 60 {
            let x = self.var_or_atom(scope);
            return match self.rng.below(5) {
                0 | 1 => {
                    let l = self.ground_list(4);
                    G::Call(Rel::Member, vec![x, l])
                }
                2 => {
                    // list with variable elements
                    let n = 1 + self.rng.below(3);
                    let l = T::list((0..n).map(|_| self.var_or_atom(scope)).collect());
                    G::Call(Rel::Member, vec![x, l])
                }
                3 => {
                    let y = self.var_or_atom(scope);
                    let l = self.ground_list(3);
                    G::Call(Rel::Append, vec![x, y, l])
                }
                _ => {
                    let l = self.ground_list(3);
                    let y = self.var_or_atom(scope);
                    G::Call(Rel::Rember, vec![self.atom(), l, y])
                }
            };
        }
        if self.cfg.recursive && r < 67 {
            let k = if self.rels.is_empty() || (self.rels.len() < 2 && self.rng.chance(1, 2)) { self.make_rel() } else { self.rng.below(self.rels.len()) };
            let l = self.ground_list(3);
            let out = if !scope.is_empty() { T::Var(*self.rng.pick(scope)) } else { self.atom() };
            return G::RecCall(k, vec![l, out]);
        }
        if self.cfg.matches && nesting > 0 && r < 75 {
            // match over a scrutinee with 2-3 arms; pattern variables are fresh numbers
            let scrut = if self.rng.chance(2, 3) { self.var_or_atom(scope) } else { self.ground_list(2) };
            let na = 2 + self.rng.below(2);
            let mut arms = vec![];
            for _ in 0..na {
                let npat = 1 + self.rng.below(2);
                let pv1 = self.new_var();
                let pv2 = self.new_var();
                let mut pats = vec![];
                for _ in 0..npat {
                    let p = match self.rng.below(6) {
                        0 => T::Nil,
                        1 => T::improper(vec![T::Var(pv1)], T::Var(pv2)),
                        2 => T::list(vec![T::Var(pv1), T::Var(pv2)]),
                        3 => T::improper(vec![T::Var(pv1)], T::Any),
                        4 => self.atom(),
                        _ => T::Var(pv1),
                    };
                    pats.push(p);
                }
                let mut inner = scope.clone();
                // only variables that occur in EVERY alternative may be used by the body
                let common: Vec<V> = [pv1, pv2].iter().copied().filter(|v| pats.iter().all(|p| p.vars().contains(v))).collect();
                inner.extend(common);
                let nb = self.rng.below(3);
                let body: Vec<G> = (0..nb).map(|_| self.goal(&mut inner, nesting - 1)).collect();
                arms.push(Arm { pats, body });
            }
            return G::Match(MatchKind::Match, scrut, arms);
        }
        if r < 79 {
            return if self.rng.chance(2, 3) { G::Succeed } else { G::Fail };
        }
        let a = self.small_term(scope);
        let b = self.small_term(scope);
        if self.cfg.diseq && self.rng.chance(1, 5) {
            G::Diseq(a, b)
        } else if !scope.is_empty() && self.rng.chance(2, 3) {
            G::Eq(T::Var(*self.rng.pick(scope)), b)
        } else {
            G::Eq(a, b)
        }
    }

    pub fn program(&mut self) -> Program {
        let qvars: Vec<V> = (0..self.cfg.nq).map(|_| self.new_var()).collect();
        let mut scope = qvars.clone();
        let n = self.cfg.min_goals + self.rng.below(self.cfg.max_goals - self.cfg.min_goals + 1);
        let nesting = self.cfg.nesting;
        let body: Vec<G> = (0..n).map(|_| self.goal(&mut scope, nesting)).collect();
        Program { rels: self.rels.clone(), qvars, body }
    }
}

/// Wrap the whole body in `dfs { ... }`.
/// `dfs { .. }` around the body, written as one clause `[g1, g2, ..]` (k = 0), one clause per goal
/// (k = 1), or two clauses split at position `k - 1` (k >= 2): all denote the same conjunction.
pub fn dfs_wrapped_split(p: &Program, k: usize) -> Program {
    let n = p.body.len();
    let clauses: Vec<Vec<G>> = if k == 0 || n < 2 {
        vec![p.body.clone()]
    } else if k == 1 {
        p.body.iter().map(|g| vec![g.clone()]).collect()
    } else {
        let cut = 1 + (k - 2) % (n - 1);
        vec![p.body[..cut].to_vec(), p.body[cut..].to_vec()]
    };
    Program { rels: p.rels.clone(), qvars: p.qvars.clone(), body: vec![G::Dfs(clauses)] }
}

pub fn dfs_wrapped(p: &Program) -> Program {
    Program { rels: p.rels.clone(), qvars: p.qvars.clone(), body: vec![G::Dfs(vec![p.body.clone()])] }
}
