//! pvcheck: entry point of the checks.
//!   pvcheck run <ID> <quick|thorough> [--replay FILE]
//!   pvcheck worker <ID> <tier> <seed> <shard> <nshards> <outdir>
//!   pvcheck case <ID> <tier> <seed> <gen> <index>
use pvmon::framework::*;
use pvmon::util::Json;
use std::path::PathBuf;

fn usage() -> ! {
    eprintln!("usage: pvcheck run <ID> <quick|thorough> [--replay FILE] | worker ... | case <ID> <tier> <seed> <gen> <index> | list");
    std::process::exit(2)
}

fn main() {
    let args: Vec<String> = std::env::args().collect();
    if args.len() < 2 {
        usage();
    }
    pvmon::run::install_panic_hook();
    match args[1].as_str() {
        "list" => {
            for c in pvmon::checks::all() {
                println!("{}", c.id());
            }
        }
        "run" => {
            if args.len() < 3 {
                usage();
            }
            let id = args[2].clone();
            let check = match pvmon::checks::by_id(&id) {
                Some(c) => c,
                None => {
                    println!("INCONCLUSIVE property={} reason=no such check", id);
                    std::process::exit(2)
                }
            };
            let mut tier = std::env::var("VERIF_TIER").ok().and_then(|t| Tier::parse(&t));
            let mut replay: Option<String> = None;
            let mut i = 3;
            while i < args.len() {
                if args[i] == "--replay" && i + 1 < args.len() {
                    replay = Some(args[i + 1].clone());
                    i += 2;
                } else if let Some(t) = Tier::parse(&args[i]) {
                    tier = Some(t);
                    i += 1;
                } else {
                    i += 1;
                }
            }
            let tier = tier.unwrap_or(Tier::Quick);
            let seed: u64 = std::env::var("VERIF_SEED").ok().and_then(|s| s.parse::<i64>().ok()).map(|s| s as u64).unwrap_or(1);
            if let Some(path) = replay {
                let text = std::fs::read_to_string(&path).expect("read replay file");
                let j = Json::parse(&text).expect("parse replay file");
                let gen = j.get("gen").and_then(|x| x.as_str()).unwrap_or("").to_string();
                let index = j.get("index").and_then(|x| x.as_i64()).unwrap_or(0) as u64;
                let seed = j.get("seed").and_then(|x| x.as_i64()).unwrap_or(1) as u64;
                let tier = j.get("tier").and_then(|x| x.as_str()).and_then(Tier::parse).unwrap_or(tier);
                let code = pvmon::run::on_big_stack(move || {
                    pvmon::run::install_panic_hook();
                    let check = pvmon::checks::by_id(&id).unwrap();
                    run_single(check.as_ref(), tier, seed, &gen, index)
                });
                std::process::exit(code);
            }
            let exe = std::env::current_exe().expect("current exe");
            let code = run_check(check.as_ref(), &RunOpts { tier, seed, exe });
            std::process::exit(code);
        }
        "worker" => {
            if args.len() < 8 {
                usage();
            }
            let id = args[2].clone();
            let tier = Tier::parse(&args[3]).unwrap_or(Tier::Quick);
            let seed: u64 = args[4].parse().unwrap_or(1);
            let shard: usize = args[5].parse().unwrap_or(0);
            let nshards: usize = args[6].parse().unwrap_or(1);
            let outdir = PathBuf::from(&args[7]);
            let part: usize = args.get(8).and_then(|s| s.parse().ok()).unwrap_or(0);
            let skip: Option<String> = args.get(9).cloned();
            pvmon::run::on_big_stack(move || {
                pvmon::run::install_panic_hook();
                let check = pvmon::checks::by_id(&id).expect("check id");
                worker_main(check.as_ref(), tier, seed, shard, nshards, &outdir, part, skip);
            });
        }
        "mirilane" => {
            // pvcheck mirilane <ID> <tier> <seed> <direct|nodirect> <gen:first:count,...>   (run under Miri)
            let id = args.get(2).cloned().unwrap_or_default();
            let tier = Tier::parse(args.get(3).map(|s| s.as_str()).unwrap_or("quick")).unwrap_or(Tier::Quick);
            let seed: u64 = args.get(4).and_then(|s| s.parse().ok()).unwrap_or(1);
            let direct = args.get(5).map(|s| s == "direct").unwrap_or(false);
            let spec = args.get(6).cloned().unwrap_or_default();
            let check = pvmon::checks::by_id(&id).expect("check id");
            let mut n = 0;
            if direct {
                println!("MIRI-BEGIN direct-projection");
                let k = pvmon::checks::mirilane::direct_projection();
                println!("MIRI-DIRECT {}", k);
            }
            for part in spec.split(',').filter(|s| !s.is_empty()) {
                let f: Vec<&str> = part.split(':').collect();
                let gen = f[0];
                let first: u64 = f.get(1).and_then(|s| s.parse().ok()).unwrap_or(0);
                let count: u64 = f.get(2).and_then(|s| s.parse().ok()).unwrap_or(0);
                for index in first..first + count {
                    println!("MIRI-BEGIN {} {} {}", id, gen, index);
                    let out = check.run_case(gen, seed, index, tier);
                    n += 1;
                    println!("MIRI-CASE {} {} {} violations={} {}", id, gen, index, out.violations.len(), out.violations.first().map(|v| v.signature.clone()).unwrap_or_default());
                }
            }
            println!("MIRI-DONE cases={}", n);
        }
        "c09seq" => {
            // helper of C09's cross-process lane: print the L1 hash of one program's answer sequence
            let dgen = args.get(2).cloned().unwrap_or_default();
            let seed: u64 = args.get(3).and_then(|s| s.parse().ok()).unwrap_or(1);
            let index: u64 = args.get(4).and_then(|s| s.parse().ok()).unwrap_or(0);
            let h = pvmon::run::on_big_stack(move || {
                pvmon::run::install_panic_hook();
                let mut rng = pvmon::util::Rng::for_case(seed, "xproc", index);
                let prog = pvmon::checks::c09::det_program(&dgen, &mut rng);
                let cfg = pvmon::run::RunCfg { max_answers: 3000, step_budget: 2_000_000, extra_next: 0, display: false };
                let r = pvmon::run::run_query(&prog, &cfg);
                pvmon::util::fnv(&pvmon::checks::c09::l1_text(&r.answers))
            });
            println!("{:x}", h);
        }
        "case" => {
            if args.len() < 7 {
                usage();
            }
            let id = args[2].clone();
            let tier = Tier::parse(&args[3]).unwrap_or(Tier::Quick);
            let seed: u64 = args[4].parse().unwrap_or(1);
            let gen = args[5].clone();
            let index: u64 = args[6].parse().unwrap_or(0);
            let code = pvmon::run::on_big_stack(move || {
                pvmon::run::install_panic_hook();
                let check = pvmon::checks::by_id(&id).expect("check id");
                run_single(check.as_ref(), tier, seed, &gen, index)
            });
            std::process::exit(code);
        }
        _ => usage(),
    }
}
