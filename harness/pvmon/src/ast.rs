//! First-order description of proto-vulcan programs (goals), shared by the API builder, the
//! surface-syntax emitter and the reference interpreter.
use crate::term::{T, V};
use std::collections::BTreeSet;
use std::fmt;

#[derive(Clone, Copy, PartialEq, Eq, Hash, PartialOrd, Ord, Debug)]
pub enum Rel {
    Member,
    Member1,
    Append,
    Rember,
    Permute,
    Distinct,
    Cons,
    First,
    Rest,
    Empty,
}

impl Rel {
    pub fn name(&self) -> &'static str {
        match self {
            Rel::Member => "member",
            Rel::Member1 => "member1",
            Rel::Append => "append",
            Rel::Rember => "rember",
            Rel::Permute => "permute",
            Rel::Distinct => "distinct",
            Rel::Cons => "cons",
            Rel::First => "first",
            Rel::Rest => "rest",
            Rel::Empty => "empty",
        }
    }
    pub fn arity(&self) -> usize {
        match self {
            Rel::Member | Rel::Member1 | Rel::Permute | Rel::First | Rel::Rest => 2,
            Rel::Append | Rel::Rember | Rel::Cons => 3,
            Rel::Distinct | Rel::Empty => 1,
        }
    }
}

#[derive(Clone, Copy, PartialEq, Eq, Hash, PartialOrd, Ord, Debug)]
pub enum MatchKind {
    /// `match` (built-in syntax, expands to Conde directly)
    Match,
    /// `matche` operator
    E,
    A,
    U,
}

impl MatchKind {
    pub fn name(&self) -> &'static str {
        match self {
            MatchKind::Match => "match",
            MatchKind::E => "matche",
            MatchKind::A => "matcha",
            MatchKind::U => "matchu",
        }
    }
}

#[derive(Clone, PartialEq, Eq, Hash, Debug)]
pub struct Arm {
    /// Alternatives `p1 | p2`. Every variable occurring in a pattern is a pattern variable,
    /// fresh per alternative.
    pub pats: Vec<T>,
    pub body: Vec<G>,
}

/// How the collection of a `for` is passed.
#[derive(Clone, Copy, PartialEq, Eq, Hash, Debug)]
pub enum CollKind {
    /// an `LTerm` list
    List,
    /// a `Vec<LTerm>`
    Vec,
}

#[derive(Clone, PartialEq, Eq, Hash, Debug)]
pub enum G {
    Eq(T, T),
    Diseq(T, T),
    Succeed,
    Fail,
    /// `[g1, g2, ...]`
    Conj(Vec<G>),
    /// `conde { c1, c2 }`, each clause a conjunction
    Conde(Vec<Vec<G>>),
    /// `cond { c1, c2 }`: search-mode-inferred disjunction (DFS inside `dfs`)
    Cond(Vec<Vec<G>>),
    /// `|x, y| { g1, g2 }`
    Fresh(Vec<V>, Vec<G>),
    /// `dfs { c1, c2 }`: conjunction of all clauses, searched depth-first
    Dfs(Vec<Vec<G>>),
    /// `loop { c1, c2 }` = anyo of the conjunction of all clauses
    Loop(Vec<Vec<G>>),
    Always,
    Never,
    Conda(Vec<Vec<G>>),
    Condu(Vec<Vec<G>>),
    /// `onceo { c1, c2 }`: first answer of the conjunction of all clauses
    Onceo(Vec<Vec<G>>),
    /// `project |x| { body }`
    Project(Vec<V>, Vec<G>),
    /// `for x in coll { c1, c2 }`
    For(V, CollKind, Vec<T>, Vec<Vec<G>>),
    Match(MatchKind, T, Vec<Arm>),
    /// `closure { body }`
    Closure(Vec<G>),
    Call(Rel, Vec<T>),
    /// call of generated recursive relation number k
    RecCall(usize, Vec<T>),
    InFd(T, Vec<i64>),
    InFdRange(T, i64, i64),
    Ltefd(T, T),
    Ltfd(T, T),
    Plusfd(T, T, T),
    Minusfd(T, T, T),
    Timesfd(T, T, T),
    Diseqfd(T, T),
    Distinctfd(T),
    Plusz(T, T, T),
    Timesz(T, T, T),
    /// monitoring probe (fngoal)
    Probe(u32),
}

#[derive(Clone, PartialEq, Eq, Hash, Debug)]
pub struct RelDef {
    pub params: Vec<V>,
    pub body: Vec<G>,
}

#[derive(Clone, PartialEq, Eq, Hash, Debug)]
pub struct Program {
    pub rels: Vec<RelDef>,
    pub qvars: Vec<V>,
    pub body: Vec<G>,
}

impl Program {
    pub fn new(qvars: Vec<V>, body: Vec<G>) -> Program {
        Program { rels: vec![], qvars, body }
    }
    pub fn query_term(&self) -> T {
        T::list(self.qvars.iter().map(|v| T::Var(*v)).collect())
    }
    pub fn max_var(&self) -> V {
        let mut m = self.qvars.iter().copied().max().unwrap_or(0);
        for g in &self.body {
            m = m.max(g.max_var());
        }
        for r in &self.rels {
            for p in &r.params {
                m = m.max(*p);
            }
            for g in &r.body {
                m = m.max(g.max_var());
            }
        }
        m
    }
    pub fn atoms(&self) -> BTreeSet<T> {
        let mut out = BTreeSet::new();
        for g in &self.body {
            g.visit_terms(&mut |t| t.atoms_into(&mut out));
        }
        for r in &self.rels {
            for g in &r.body {
                g.visit_terms(&mut |t| t.atoms_into(&mut out));
            }
        }
        out
    }
    pub fn comps(&self) -> BTreeSet<(&'static str, usize)> {
        let mut out = BTreeSet::new();
        for g in &self.body {
            g.visit_terms(&mut |t| t.comps_into(&mut out));
        }
        out
    }
    pub fn goal_kinds(&self) -> BTreeSet<&'static str> {
        let mut out = BTreeSet::new();
        for g in &self.body {
            g.kinds_into(&mut out);
        }
        for r in &self.rels {
            for g in &r.body {
                g.kinds_into(&mut out);
            }
        }
        out
    }
    pub fn size(&self) -> usize {
        self.body.iter().map(|g| g.size()).sum::<usize>() + self.rels.iter().map(|r| r.body.iter().map(|g| g.size()).sum::<usize>()).sum::<usize>()
    }
}

fn max_var_t(t: &T) -> V {
    t.vars().into_iter().max().unwrap_or(0)
}

impl G {
    pub fn kind(&self) -> &'static str {
        match self {
            G::Eq(..) => "eq",
            G::Diseq(..) => "diseq",
            G::Succeed => "succeed",
            G::Fail => "fail",
            G::Conj(..) => "conj",
            G::Conde(..) => "conde",
            G::Cond(..) => "cond",
            G::Fresh(..) => "fresh",
            G::Dfs(..) => "dfs",
            G::Loop(..) => "loop",
            G::Always => "always",
            G::Never => "never",
            G::Conda(..) => "conda",
            G::Condu(..) => "condu",
            G::Onceo(..) => "onceo",
            G::Project(..) => "project",
            G::For(..) => "for",
            G::Match(k, ..) => k.name(),
            G::Closure(..) => "closure",
            G::Call(r, ..) => r.name(),
            G::RecCall(..) => "reccall",
            G::InFd(..) => "infd",
            G::InFdRange(..) => "infdrange",
            G::Ltefd(..) => "ltefd",
            G::Ltfd(..) => "ltfd",
            G::Plusfd(..) => "plusfd",
            G::Minusfd(..) => "minusfd",
            G::Timesfd(..) => "timesfd",
            G::Diseqfd(..) => "diseqfd",
            G::Distinctfd(..) => "distinctfd",
            G::Plusz(..) => "plusz",
            G::Timesz(..) => "timesz",
            G::Probe(..) => "probe",
        }
    }
    /// Sub-goal groups (clauses) of this goal, if any.
    pub fn clauses(&self) -> Vec<&Vec<G>> {
        match self {
            G::Conj(gs) | G::Fresh(_, gs) | G::Project(_, gs) | G::Closure(gs) => vec![gs],
            G::Conde(cs) | G::Cond(cs) | G::Dfs(cs) | G::Loop(cs) | G::Conda(cs) | G::Condu(cs) | G::Onceo(cs) | G::For(_, _, _, cs) => cs.iter().collect(),
            G::Match(_, _, arms) => arms.iter().map(|a| &a.body).collect(),
            _ => vec![],
        }
    }
    pub fn kinds_into(&self, out: &mut BTreeSet<&'static str>) {
        out.insert(self.kind());
        for c in self.clauses() {
            for g in c {
                g.kinds_into(out);
            }
        }
    }
    pub fn size(&self) -> usize {
        1 + self.clauses().iter().map(|c| c.iter().map(|g| g.size()).sum::<usize>()).sum::<usize>()
    }
    pub fn terms(&self) -> Vec<&T> {
        match self {
            G::Eq(a, b) | G::Diseq(a, b) | G::Ltefd(a, b) | G::Ltfd(a, b) | G::Diseqfd(a, b) => vec![a, b],
            G::Plusfd(a, b, c) | G::Minusfd(a, b, c) | G::Timesfd(a, b, c) | G::Plusz(a, b, c) | G::Timesz(a, b, c) => vec![a, b, c],
            G::InFd(a, _) | G::InFdRange(a, _, _) | G::Distinctfd(a) => vec![a],
            G::Call(_, ts) | G::RecCall(_, ts) => ts.iter().collect(),
            G::For(_, _, ts, _) => ts.iter().collect(),
            G::Match(_, s, arms) => {
                let mut v = vec![s];
                for a in arms {
                    v.extend(a.pats.iter());
                }
                v
            }
            _ => vec![],
        }
    }
    pub fn visit_terms(&self, f: &mut dyn FnMut(&T)) {
        for t in self.terms() {
            f(t);
        }
        for c in self.clauses() {
            for g in c {
                g.visit_terms(f);
            }
        }
    }
    pub fn max_var(&self) -> V {
        let mut m = 0;
        match self {
            G::Fresh(vs, _) | G::Project(vs, _) => {
                for v in vs {
                    m = m.max(*v)
                }
            }
            G::For(v, ..) => m = m.max(*v),
            _ => {}
        }
        for t in self.terms() {
            m = m.max(max_var_t(t));
        }
        for c in self.clauses() {
            for g in c {
                m = m.max(g.max_var());
            }
        }
        m
    }
    /// Can the reference model's set reading treat this goal as finite (no loop/always/never)?
    pub fn has_infinite(&self) -> bool {
        match self {
            G::Loop(..) | G::Always | G::Never => true,
            _ => self.clauses().iter().any(|c| c.iter().any(|g| g.has_infinite())),
        }
    }
    pub fn has_kind(&self, k: &str) -> bool {
        if self.kind() == k {
            return true;
        }
        self.clauses().iter().any(|c| c.iter().any(|g| g.has_kind(k)))
    }
}

fn fmt_goals(f: &mut fmt::Formatter, gs: &[G]) -> fmt::Result {
    for (i, g) in gs.iter().enumerate() {
        if i > 0 {
            write!(f, ", ")?;
        }
        write!(f, "{}", g)?;
    }
    Ok(())
}

fn fmt_clauses(f: &mut fmt::Formatter, cs: &[Vec<G>]) -> fmt::Result {
    for (i, c) in cs.iter().enumerate() {
        if i > 0 {
            write!(f, ", ")?;
        }
        if c.len() == 1 && !matches!(c[0], G::Conj(_)) {
            write!(f, "{}", c[0])?;
        } else {
            write!(f, "[")?;
            fmt_goals(f, c)?;
            write!(f, "]")?;
        }
    }
    Ok(())
}

fn fmt_terms(f: &mut fmt::Formatter, ts: &[T]) -> fmt::Result {
    for (i, t) in ts.iter().enumerate() {
        if i > 0 {
            write!(f, ", ")?;
        }
        write!(f, "{}", t)?;
    }
    Ok(())
}

impl fmt::Display for G {
    fn fmt(&self, f: &mut fmt::Formatter) -> fmt::Result {
        match self {
            G::Eq(a, b) => write!(f, "{} == {}", a, b),
            G::Diseq(a, b) => write!(f, "{} != {}", a, b),
            G::Succeed => write!(f, "true"),
            G::Fail => write!(f, "false"),
            G::Conj(gs) => {
                write!(f, "[")?;
                fmt_goals(f, gs)?;
                write!(f, "]")
            }
            G::Conde(cs) | G::Cond(cs) | G::Dfs(cs) | G::Loop(cs) | G::Conda(cs) | G::Condu(cs) | G::Onceo(cs) => {
                write!(f, "{} {{ ", self.kind())?;
                fmt_clauses(f, cs)?;
                write!(f, " }}")
            }
            G::Fresh(vs, gs) => {
                write!(f, "|")?;
                for (i, v) in vs.iter().enumerate() {
                    if i > 0 {
                        write!(f, ", ")?;
                    }
                    write!(f, "v{}", v)?;
                }
                write!(f, "| {{ ")?;
                fmt_goals(f, gs)?;
                write!(f, " }}")
            }
            G::Project(vs, gs) => {
                write!(f, "project |")?;
                for (i, v) in vs.iter().enumerate() {
                    if i > 0 {
                        write!(f, ", ")?;
                    }
                    write!(f, "v{}", v)?;
                }
                write!(f, "| {{ ")?;
                fmt_goals(f, gs)?;
                write!(f, " }}")
            }
            G::Always => write!(f, "always()"),
            G::Never => write!(f, "never()"),
            G::For(v, k, coll, cs) => {
                write!(f, "for v{} in {}(", v, if *k == CollKind::List { "list" } else { "vec" })?;
                fmt_terms(f, coll)?;
                write!(f, ") {{ ")?;
                fmt_clauses(f, cs)?;
                write!(f, " }}")
            }
            G::Match(k, s, arms) => {
                write!(f, "{} {} {{ ", k.name(), s)?;
                for (i, a) in arms.iter().enumerate() {
                    if i > 0 {
                        write!(f, ", ")?;
                    }
                    for (j, p) in a.pats.iter().enumerate() {
                        if j > 0 {
                            write!(f, " | ")?;
                        }
                        write!(f, "{}", p)?;
                    }
                    write!(f, " => {{ ")?;
                    fmt_goals(f, &a.body)?;
                    write!(f, " }}")?;
                }
                write!(f, " }}")
            }
            G::Closure(gs) => {
                write!(f, "closure {{ ")?;
                fmt_goals(f, gs)?;
                write!(f, " }}")
            }
            G::Call(r, ts) => {
                write!(f, "{}(", r.name())?;
                fmt_terms(f, ts)?;
                write!(f, ")")
            }
            G::RecCall(k, ts) => {
                write!(f, "rel{}(", k)?;
                fmt_terms(f, ts)?;
                write!(f, ")")
            }
            G::InFd(t, d) => write!(f, "infd({}, {:?})", t, d),
            G::InFdRange(t, lo, hi) => write!(f, "infdrange({}, {}..={})", t, lo, hi),
            G::Ltefd(a, b) => write!(f, "ltefd({}, {})", a, b),
            G::Ltfd(a, b) => write!(f, "ltfd({}, {})", a, b),
            G::Plusfd(a, b, c) => write!(f, "plusfd({}, {}, {})", a, b, c),
            G::Minusfd(a, b, c) => write!(f, "minusfd({}, {}, {})", a, b, c),
            G::Timesfd(a, b, c) => write!(f, "timesfd({}, {}, {})", a, b, c),
            G::Diseqfd(a, b) => write!(f, "diseqfd({}, {})", a, b),
            G::Distinctfd(a) => write!(f, "distinctfd({})", a),
            G::Plusz(a, b, c) => write!(f, "plusz({}, {}, {})", a, b, c),
            G::Timesz(a, b, c) => write!(f, "timesz({}, {}, {})", a, b, c),
            G::Probe(id) => write!(f, "probe#{}", id),
        }
    }
}

impl fmt::Display for Program {
    fn fmt(&self, f: &mut fmt::Formatter) -> fmt::Result {
        for (k, r) in self.rels.iter().enumerate() {
            write!(f, "rel{}(", k)?;
            for (i, p) in r.params.iter().enumerate() {
                if i > 0 {
                    write!(f, ", ")?;
                }
                write!(f, "v{}", p)?;
            }
            write!(f, ") := closure {{ ")?;
            fmt_goals(f, &r.body)?;
            write!(f, " }}; ")?;
        }
        write!(f, "query |")?;
        for (i, v) in self.qvars.iter().enumerate() {
            if i > 0 {
                write!(f, ", ")?;
            }
            write!(f, "v{}", v)?;
        }
        write!(f, "| {{ ")?;
        fmt_goals(f, &self.body)?;
        write!(f, " }}")
    }
}

impl G {
    /// Apply `f` to every term of the goal (patterns of match arms excluded), recursively.
    pub fn map_terms(&self, f: &dyn Fn(&T) -> T) -> G {
        let mc = |cs: &Vec<Vec<G>>| -> Vec<Vec<G>> { cs.iter().map(|c| c.iter().map(|g| g.map_terms(f)).collect()).collect() };
        let ml = |gs: &Vec<G>| -> Vec<G> { gs.iter().map(|g| g.map_terms(f)).collect() };
        match self {
            G::Eq(a, b) => G::Eq(f(a), f(b)),
            G::Diseq(a, b) => G::Diseq(f(a), f(b)),
            G::Succeed | G::Fail | G::Always | G::Never | G::Probe(_) => self.clone(),
            G::Conj(gs) => G::Conj(ml(gs)),
            G::Conde(cs) => G::Conde(mc(cs)),
            G::Cond(cs) => G::Cond(mc(cs)),
            G::Fresh(vs, gs) => G::Fresh(vs.clone(), ml(gs)),
            G::Dfs(cs) => G::Dfs(mc(cs)),
            G::Loop(cs) => G::Loop(mc(cs)),
            G::Conda(cs) => G::Conda(mc(cs)),
            G::Condu(cs) => G::Condu(mc(cs)),
            G::Onceo(cs) => G::Onceo(mc(cs)),
            G::Project(vs, gs) => G::Project(vs.clone(), ml(gs)),
            G::For(v, k, coll, cs) => G::For(*v, *k, coll.iter().map(|t| f(t)).collect(), mc(cs)),
            G::Match(k, s, arms) => G::Match(*k, f(s), arms.iter().map(|a| Arm { pats: a.pats.clone(), body: ml(&a.body) }).collect()),
            G::Closure(gs) => G::Closure(ml(gs)),
            G::Call(r, ts) => G::Call(*r, ts.iter().map(|t| f(t)).collect()),
            G::RecCall(k, ts) => G::RecCall(*k, ts.iter().map(|t| f(t)).collect()),
            G::InFd(t, d) => G::InFd(f(t), d.clone()),
            G::InFdRange(t, lo, hi) => G::InFdRange(f(t), *lo, *hi),
            G::Ltefd(a, b) => G::Ltefd(f(a), f(b)),
            G::Ltfd(a, b) => G::Ltfd(f(a), f(b)),
            G::Plusfd(a, b, c) => G::Plusfd(f(a), f(b), f(c)),
            G::Minusfd(a, b, c) => G::Minusfd(f(a), f(b), f(c)),
            G::Timesfd(a, b, c) => G::Timesfd(f(a), f(b), f(c)),
            G::Diseqfd(a, b) => G::Diseqfd(f(a), f(b)),
            G::Distinctfd(a) => G::Distinctfd(f(a)),
            G::Plusz(a, b, c) => G::Plusz(f(a), f(b), f(c)),
            G::Timesz(a, b, c) => G::Timesz(f(a), f(b), f(c)),
        }
    }

    /// Substitute a term for a (free) variable name.
    pub fn subst_var(&self, x: V, t: &T) -> G {
        self.map_terms(&|u: &T| u.map_vars(&|w| if w == x { t.clone() } else { T::Var(w) }))
    }
}
