//! C15 — fresh variables are distinct and renaming-invariant (surface lane).
use super::surface::*;
use super::surfgen::*;
use crate::emit::Naming;
use crate::framework::*;
use crate::util::Rng;

pub struct C15;

impl Check for C15 {
    fn id(&self) -> &'static str {
        "C15"
    }
    fn gens(&self) -> Vec<GenSpec> {
        vec![]
    }
    fn rule(&self) -> &'static str {
        "Programs with variables in many nested and sibling scopes: fresh blocks nested to depth 3, match arms with alternatives, query variables, and two generated recursive relations (`fn rel(..) -> InferredGoal { proto_vulcan_closure!(..) }`) whose bodies introduce fresh variables (one through a fresh block, one through a match arm plus fresh) and are unfolded once per list element (0-3 times on one path), called once or twice in one conjunction; plus pattern-matching programs where pattern variables can shadow the scrutinee. Every AST (variables are unique ids) is emitted as Rust source TWICE: once with all names distinct and once with maximal legal name clashes (the same name re-used in nested fresh scopes, sibling scopes, pattern arms, query variables, relation parameters and relation-local variables). Both are compiled against the current tree and run: their answer sequences must be identical (alpha-renaming invariance), and both must equal the reference evaluation, whose variables are unique ids (the all-distinct semantics). Distinct = distinct (AST, naming); non-trivial = the reference has at least one answer."
    }
    fn assumptions(&self) -> Vec<String> {
        vec!["the clash-maximising emitter only re-uses a name where no variable that the inner scope still refers to would be shadowed (capture-avoiding)".into()]
    }
    fn floor(&self, tier: Tier) -> u64 {
        match tier {
            Tier::Quick => 120,
            Tier::Thorough => 1500,
        }
    }
    fn required_counters(&self) -> Vec<&'static str> {
        vec!["programs_compiled_and_run", "reference_compared", "alpha_twins_compared", "tag_scopes", "tag_match-shadow"]
    }
    fn run_batch(&self, tier: Tier, seed: u64) -> Option<Merged> {
        let (cases, lterms) = Self::build_cases(tier, seed);
        Some(run_surface_batch("C15", cases, lterms, seed, false))
    }
    fn run_case(&self, gen: &str, seed: u64, index: u64, tier: Tier) -> CaseOut {
        // replay of one surface case (violation files name them `surface:<k>`)
        if gen != "surface" {
            return CaseOut::default();
        }
        let (cases, _) = Self::build_cases(tier, seed);
        replay_case("C15", cases, index as usize, seed, false)
    }
}

impl C15 {
    fn build_cases(tier: Tier, seed: u64) -> (Vec<SurfCase>, Vec<LtermCase>) {
        let n = if tier == Tier::Thorough { 4000 } else { 300 };
        let mut cases = vec![];
        for i in 0..n {
            let mut rng = Rng::for_case(seed, "c15", i as u64);
            let (prog, tag) = if i % 3 == 2 { (MatchGen { rng: &mut rng, next_var: 0 }.program(), "match-shadow") } else { (scope_program(&mut rng), "scopes") };
            let k = cases.len();
            cases.push(SurfCase { prog: prog.clone(), naming: Naming::Distinct, twin_of: None, infinite: false, ordered: false, tag });
            cases.push(SurfCase { prog, naming: Naming::Clash, twin_of: Some(k), infinite: false, ordered: false, tag });
        }
                (cases, vec![])
    }
}
