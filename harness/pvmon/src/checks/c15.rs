//! C15 — fresh variables are distinct and renaming-invariant (surface lane).
use super::surface::*;
use super::surfgen::*;
use crate::emit::Naming;
use crate::framework::*;
use crate::util::Rng;

pub struct C15;

/// `[g, g]` / `[g, g, g]` with g one closure goal value whose body makes choices on variables of its own.
fn reuse_case(seed: u64, index: u64) -> CaseOut {
    use super::common::*;
    use crate::ast::*;
    use crate::canon::*;
    use crate::run::*;
    use crate::term::T;
    let mut out = CaseOut::default();
    let mut rng = Rng::for_case(seed, "reuse", index);
    let v = |i: u32| T::Var(i);
    let k = |rng: &mut Rng| T::Int(rng.range(1, 4));
    // body: |t| { <choice on t>, member(t, q0) } with q0 a list of 2-3 unbound cells: every invocation
    // chooses a value for ITS t and stores it in one of the cells
    let choice = match rng.below(3) {
        0 => G::Call(Rel::Member, vec![v(10), T::list((0..2 + rng.below(2)).map(|_| k(&mut rng)).collect())]),
        1 => G::Conde(vec![vec![G::Eq(v(10), k(&mut rng))], vec![G::Eq(v(10), k(&mut rng))]]),
        _ => G::Match(MatchKind::Match, T::list(vec![k(&mut rng), k(&mut rng)]), vec![Arm { pats: vec![T::improper(vec![v(11)], T::Any), T::list(vec![T::Any, v(11)])], body: vec![G::Eq(v(10), v(11))] }]),
    };
    let body = vec![G::Fresh(vec![10], vec![choice, G::Call(Rel::Member, vec![v(10), v(0)])])];
    let clo = G::Closure(body);
    let n = 2 + rng.below(2);
    let mut goals: Vec<G> = vec![G::Eq(v(0), T::list((0..n).map(|i| v(20 + i as u32)).collect()))];
    // the same closure goal written n times in a row: the builder builds it once and clones the VALUE
    let mut conj = vec![];
    for _ in 0..n {
        conj.push(clo.clone());
    }
    goals.push(G::Conj(conj));
    let prog = Program::new(vec![0], vec![G::Fresh((20..20 + n as u32).collect(), goals)]);
    let cfg = RunCfg { max_answers: 3000, step_budget: 500_000, extra_next: 1, display: true };
    let real = run_query(&prog, &cfg);
    out.count("reuse_programs", 1);
    if !usable(&real, &mut out, &prog, "reuse query") {
        return out;
    }
    match ref_answers(&prog, false) {
        Ok(r) => {
            out.count("reuse_reference_compared", 1);
            let uni = universe(&prog, &[]);
            if cut_at_cap(real.ended, real.answers.len(), true, r.len()) {
                out.count("comparisons_skipped_answer_cap", 1);
            } else if let Cmp::Different(why) = compare_multisets(&real.answers, &r, &uni) {
                out.violate("M-ref", "a closure goal value used several times: its invocations do not have variables of their own", format!("{} | real {} | reference {}", why, show_answers(&real.answers), show_answers(&r)), format!("{}", prog));
            }
            if r.len() >= 2 {
                out.distinct.push(program_key(&prog));
            }
        }
        Err(e) => out.inconclusive.push(format!("reference: {:?}", e)),
    }
    out
}

impl Check for C15 {
    fn id(&self) -> &'static str {
        "C15"
    }
    fn gens(&self) -> Vec<GenSpec> {
        vec![GenSpec { name: "reuse", quick: 1500, thorough: 60_000 }]
    }
    fn rule(&self) -> &'static str {
        "Programs with variables in many nested and sibling scopes: fresh blocks nested to depth 3, match arms with alternatives, query variables, and two generated recursive relations (`fn rel(..) -> InferredGoal { proto_vulcan_closure!(..) }`) whose bodies introduce fresh variables (one through a fresh block, one through a match arm plus fresh) and are unfolded once per list element (0-3 times on one path), called once or twice in one conjunction; plus pattern-matching programs where pattern variables can shadow the scrutinee. Every AST (variables are unique ids) is emitted as Rust source TWICE: once with all names distinct and once with maximal legal name clashes (the same name re-used in nested fresh scopes, sibling scopes, pattern arms, query variables, relation parameters and relation-local variables). Both are compiled against the current tree and run: their answer sequences must be identical (alpha-renaming invariance), and both must equal the reference evaluation, whose variables are unique ids (the all-distinct semantics). 'reuse' (API-built): one closure goal VALUE used two or three times in one conjunction (`let g = closure { |t| { .. } }; [g.clone(), g]`), its body introducing fresh and pattern variables that each invocation must bind differently (member / conde / a match arm with alternatives choose a value for the fresh variable, which is then stored in one of the unbound cells of the query variable's list); the answers must equal the reference's, in which every invocation has its own variables. Distinct = distinct (AST, naming); non-trivial = the reference has at least one answer."
    }
    fn assumptions(&self) -> Vec<String> {
        vec!["the clash-maximising emitter only re-uses a name where no variable that the inner scope still refers to would be shadowed (capture-avoiding)".into()]
    }
    fn floor(&self, tier: Tier) -> u64 {
        match tier {
            Tier::Quick => 120,
            Tier::Thorough => 1500,
        }
    }
    fn required_counters(&self) -> Vec<&'static str> {
        vec!["reuse_reference_compared", "programs_compiled_and_run", "reference_compared", "alpha_twins_compared", "tag_scopes", "tag_match-shadow"]
    }
    fn run_batch(&self, tier: Tier, seed: u64) -> Option<Merged> {
        let (cases, lterms) = Self::build_cases(tier, seed);
        Some(run_surface_batch("C15", cases, lterms, seed, false))
    }
    fn run_case(&self, gen: &str, seed: u64, index: u64, tier: Tier) -> CaseOut {
        // replay of one surface case (violation files name them `surface:<k>`)
        if gen == "reuse" {
            return reuse_case(seed, index);
        }
        if gen != "surface" {
            return CaseOut::default();
        }
        let (cases, _) = Self::build_cases(tier, seed);
        replay_case("C15", cases, index as usize, seed, false)
    }
}

impl C15 {
    fn build_cases(tier: Tier, seed: u64) -> (Vec<SurfCase>, Vec<LtermCase>) {
        let n = if tier == Tier::Thorough { 4000 } else { 300 };
        let mut cases = vec![];
        for i in 0..n {
            let mut rng = Rng::for_case(seed, "c15", i as u64);
            let (prog, tag) = if i % 3 == 2 { (MatchGen { rng: &mut rng, next_var: 0 }.program(), "match-shadow") } else { (scope_program(&mut rng), "scopes") };
            let k = cases.len();
            cases.push(SurfCase { prog: prog.clone(), naming: Naming::Distinct, twin_of: None, infinite: false, ordered: false, tag });
            cases.push(SurfCase { prog, naming: Naming::Clash, twin_of: Some(k), infinite: false, ordered: false, tag });
        }
                (cases, vec![])
    }
}
