//! C12 — for/everyg is the conjunction of its body over the collection.
use super::common::*;
use super::surface::*;
use crate::emit::Naming;
use crate::ast::*;
use crate::canon::*;
use crate::framework::*;
use crate::run::*;
use crate::term::{T, V};
use crate::util::Rng;
use std::collections::BTreeSet;

pub struct C12;

fn v(i: V) -> T {
    T::Var(i)
}

const Q0: V = 0;
const Q1: V = 1;
const A: V = 2;
const B: V = 3;
const X: V = 9;

fn k(rng: &mut Rng) -> T {
    T::Int(rng.range(1, 4))
}

fn elem(rng: &mut Rng) -> T {
    match rng.below(8) {
        0 | 1 => v(A),
        2 => v(B),
        3 => T::list(vec![v(A), k(rng)]),
        4 => v(Q0),
        _ => k(rng),
    }
}

fn body_goal(rng: &mut Rng, depth: usize) -> G {
    match rng.below(10) {
        0 => G::Eq(v(X), k(rng)),
        1 => G::Call(Rel::Member, vec![v(X), T::list((0..2 + rng.below(3)).map(|_| k(rng)).collect())]),
        2 => G::Diseq(v(X), k(rng)),
        3 => G::Conde(vec![vec![G::Eq(v(X), k(rng))], vec![G::Eq(v(X), k(rng))]]),
        4 => G::Eq(v(Q1), T::list(vec![v(X)])),
        5 => G::Eq(v(Q0), v(X)),
        6 => G::Diseq(v(X), v(Q0)),
        7 if depth > 0 => G::Conj(vec![body_goal(rng, depth - 1), body_goal(rng, depth - 1)]),
        8 => G::InFd(v(X), vec![1, 2, 3]),
        _ => G::Call(Rel::Member, vec![v(X), T::list(vec![v(A), v(B), k(rng)])]),
    }
}

/// `prefix, for x in coll { clauses }, suffix` and its explicit-conjunction twin.
/// Body goals that mention only the loop variable and constants. In surface syntax the body of
/// `for` is a non-`move` closure boxed as `'static`, so a body that mentions a logic variable of
/// the enclosing scope does not compile (E0597); such programs are outside the surface lane. The
/// collection expression is evaluated outside that closure and may mention any variable in scope.
fn closed_body_goal(rng: &mut Rng, depth: usize) -> G {
    match rng.below(7) {
        0 => G::Eq(v(X), k(rng)),
        1 | 2 => G::Call(Rel::Member, vec![v(X), T::list((0..2 + rng.below(3)).map(|_| k(rng)).collect())]),
        3 => G::Diseq(v(X), k(rng)),
        4 => G::Conde(vec![vec![G::Eq(v(X), k(rng))], vec![G::Eq(v(X), k(rng))]]),
        5 if depth > 0 => G::Conj(vec![closed_body_goal(rng, depth - 1), closed_body_goal(rng, depth - 1), closed_body_goal(rng, depth - 1)]),
        _ => G::Diseq(v(X), T::list(vec![k(rng)])),
    }
}

fn for_program(rng: &mut Rng, closed: bool) -> (Program, Program, usize, CollKind, bool, Vec<T>) {
    let n = match rng.below(8) {
        0 => 0,
        x => 1 + (x as usize - 1) % 5,
    };
    let coll: Vec<T> = (0..n).map(|_| elem(rng)).collect();
    let kind = if rng.chance(1, 2) { CollKind::Vec } else { CollKind::List };
    let nclauses = 1 + rng.below(2);
    let clauses: Vec<Vec<G>> = (0..nclauses).map(|_| (0..1 + rng.below(2)).map(|_| if closed { closed_body_goal(rng, 1) } else { body_goal(rng, 1) }).collect()).collect();
    let (prefix, multi): (Vec<G>, bool) = match rng.below(5) {
        0 => (vec![G::Conde(vec![vec![G::Eq(v(A), k(rng))], vec![G::Eq(v(A), k(rng))], vec![G::Eq(v(A), k(rng)), G::Eq(v(B), k(rng))]])], true),
        1 => (vec![G::Call(Rel::Member, vec![v(A), T::list(vec![T::Int(1), T::Int(2), T::Int(3)])])], true),
        2 => (vec![G::Eq(v(A), k(rng))], false),
        3 => (vec![G::Call(Rel::Member, vec![v(A), T::list(vec![T::Int(1), T::Int(2)])]), G::Call(Rel::Member, vec![v(B), T::list(vec![T::Int(2), T::Int(3)])])], true),
        _ => (vec![], false),
    };
    let suffix: Vec<G> = if rng.chance(1, 3) { vec![G::Eq(v(Q1), T::list(vec![v(A), v(B)]))] } else { vec![] };
    let wrap = |mid: Vec<G>| -> Program {
        let mut b = prefix.clone();
        b.extend(mid);
        b.extend(suffix.iter().cloned());
        Program::new(vec![Q0, Q1], vec![G::Fresh(vec![A, B], b)])
    };
    let prog = wrap(vec![G::For(X, kind, coll.clone(), clauses.clone())]);
    let explicit: Vec<G> = coll.iter().flat_map(|c| clauses.iter().flat_map(move |cl| cl.iter().map(move |g| g.subst_var(X, c)))).collect();
    let eprog = wrap(if explicit.is_empty() { vec![G::Succeed] } else { explicit });
    (prog, eprog, n, kind, multi, coll)
}

impl C12 {
    /// The same programs written in SURFACE syntax and compiled: `for x in &coll { .. }` with the
    /// collection a Rust value (ground) or an expression over the logic variables in scope.
    fn surface_cases(tier: Tier, seed: u64) -> Vec<SurfCase> {
        let n = if tier == Tier::Thorough { 2500 } else { 160 };
        let mut cases = vec![];
        let mut i = 0u64;
        while cases.len() < n && i < 20 * n as u64 {
            let mut rng = Rng::for_case(seed, "c12-surface", i);
            i += 1;
            let (prog, _e, _n, _k, _m, _c) = for_program(&mut rng, true);
            cases.push(SurfCase { prog, naming: if i % 2 == 0 { Naming::Clash } else { Naming::Distinct }, twin_of: None, infinite: false, ordered: false, tag: "for" });
        }
        cases
    }
}

impl Check for C12 {
    fn id(&self) -> &'static str {
        "C12"
    }
    fn gens(&self) -> Vec<GenSpec> {
        vec![GenSpec { name: "for", quick: 18_000, thorough: 600_000 }]
    }
    fn rule(&self) -> &'static str {
        "Programs `|a, b| { prefix, for x in coll { body }, suffix }`: collections of 0-5 terms passed as an LTerm list or as a Vec<LTerm> (constants, duplicates, the variables a and b, a query variable, lists holding a), prefixes that bind a and b differently in several states (conde, member) so that the SAME for goal object is solved from more than one state, bodies of 1-2 clauses built from x == k, member(x, ..) (several answers), x != k, conde, q1 == [x], q0 == x, infd; optional suffix. Each program is compared, as a multiset of ground-instance sets, with the same program where the for goal is replaced by the explicit conjunction of body[x := c] over the elements (real vs real) and with the reference interpreter; an empty collection must behave exactly like `true`. Distinct = distinct program text; non-trivial = at least 1 element and at least one answer. A compiled lane writes `prefix, for x in &coll { clauses }, suffix` in surface syntax (collection a Rust value when ground, an in-place `lterm!`/`vec!` expression over the logic variables in scope otherwise; body goals over the loop variable and constants, incl. bracketed multi-goal clauses), compiles it against the current tree and compares the answers with the reference and the API-built twin."
    }
    fn assumptions(&self) -> Vec<String> {
        vec!["the explicit conjunction is built by substituting the element term for x in the body AST (bodies never rebind x)".into()]
    }
    fn floor(&self, tier: Tier) -> u64 {
        match tier {
            Tier::Quick => 3500,
            Tier::Thorough => 100_000,
        }
    }
    fn required_counters(&self) -> Vec<&'static str> {
        vec!["programs_compiled_and_run", "api_twin_compared", "explicit_conjunction_compared", "reference_compared", "empty_collections", "vec_collections", "list_collections", "for_goal_reached_by_several_states", "collections_with_variables"]
    }
    fn run_batch(&self, tier: Tier, seed: u64) -> Option<Merged> {
        Some(run_surface_batch("C12", Self::surface_cases(tier, seed), vec![], seed, true))
    }
    fn run_case(&self, gen: &str, seed: u64, index: u64, tier: Tier) -> CaseOut {
        if gen == "surface" {
            return replay_case("C12", Self::surface_cases(tier, seed), index as usize, seed, true);
        }
        let _tier = tier;
        let mut out = CaseOut::default();
        let mut rng = Rng::for_case(seed, gen, index);
        let (prog, eprog, n, kind, multi, coll) = for_program(&mut rng, false);
        let cfg = RunCfg { max_answers: 4000, step_budget: 600_000, extra_next: 1, display: true };
        let real = run_query(&prog, &cfg);
        out.count("programs", 1);
        if !usable(&real, &mut out, &prog, "for query") {
            return out;
        }
        out.count(if n == 0 { "empty_collections" } else { "nonempty_collections" }, 1);
        out.count(if kind == CollKind::Vec { "vec_collections" } else { "list_collections" }, 1);
        if multi && n > 0 {
            out.count("for_goal_reached_by_several_states", 1);
        }
        if coll.iter().any(|t| !t.is_ground()) {
            out.count("collections_with_variables", 1);
        }
        let uni = universe(&prog, &[]);
        let ereal = run_query(&eprog, &cfg);
        if usable(&ereal, &mut out, &eprog, "explicit conjunction") {
            out.count("explicit_conjunction_compared", 1);
            if cut_at_cap(real.ended, real.answers.len(), ereal.ended, ereal.answers.len()) {
                out.count("comparisons_skipped_answer_cap", 1);
            } else if let Cmp::Different(why) = compare_multisets(&real.answers, &ereal.answers, &uni) {
                out.violate(
                    "M-meta",
                    if n == 0 { "for over an empty collection does not succeed exactly once" } else { "for differs from the explicit conjunction of its body over the collection" },
                    format!("{} | for {} | explicit {} | explicit program: {}", why, show_answers(&real.answers), show_answers(&ereal.answers), eprog),
                    format!("{}", prog),
                );
            }
        }
        match ref_answers(&prog, false) {
            Ok(r) => {
                out.count("reference_compared", 1);
                if cut_at_cap(real.ended, real.answers.len(), true, r.len()) {
                    out.count("comparisons_skipped_answer_cap", 1);
                } else if let Cmp::Different(why) = compare_multisets(&real.answers, &r, &uni) {
                    out.violate("M-ref", "for answers differ from the reference semantics", format!("{} | real {} | reference {}", why, show_answers(&real.answers), show_answers(&r)), format!("{}", prog));
                }
            }
            Err(e) => out.inconclusive.push(format!("reference: {:?}", e)),
        }
        if n > 0 && !real.answers.is_empty() {
            out.distinct.push(program_key(&prog));
        }
        if index % 997 == 4 {
            out.sample = Some(sample_json(&prog, &real.answers, &format!("explicit conjunction: {}", eprog)));
        }
        let mut seen = BTreeSet::new();
        out.violations.retain(|v| seen.insert(v.signature.clone()));
        out
    }
}
