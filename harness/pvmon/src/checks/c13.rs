//! C13 — pattern matching has the documented match/matche/matcha/matchu meaning (surface lane).
use super::surface::*;
use super::surfgen::*;
use crate::emit::Naming;
use crate::framework::*;
use crate::util::Rng;

pub struct C13;

impl Check for C13 {
    fn id(&self) -> &'static str {
        "C13"
    }
    fn gens(&self) -> Vec<GenSpec> {
        vec![]
    }
    fn rule(&self) -> &'static str {
        "Random programs around one match / matche / matcha / matchu expression (nested matches in arm bodies): scrutinee a variable (bound before or after the match), a literal or a list expression; 1-4 arms; patterns to depth 3 built from literals of all kinds, [], proper and improper lists, `_`, pattern variables (repeated within a pattern), a compound pattern at the top; `p1 | p2` alternatives sharing a body; empty bodies (`=> ,`), single-goal and braced bodies using pattern and outer variables. Each AST is EMITTED AS RUST SOURCE using proto_vulcan_query! (every program twice: with distinct names and with maximal legal name clashes, so pattern variables shadow outer variables incl. the scrutinee's), COMPILED against the current tree and run; its answers must equal the reference evaluation of the AST (disjunction over arms and alternatives of `t == p` followed by the body, pattern names fresh per arm; committed choice for matcha/matchu) as a multiset of ground-instance sets, and the API-built twin (harness builder mirroring the macro expansion). A generated program that fails to compile while the library compiles is a violation. Distinct = distinct (AST, naming); non-trivial = the reference has at least one answer."
    }
    fn assumptions(&self) -> Vec<String> {
        vec!["reference: pvmon::refsem Match (desugaring to fresh pattern variables + == + body)".into(), "programs are emitted inside the grammar the macros document (scrutinee is one token tree; compounds only at the top of a pattern)".into()]
    }
    fn floor(&self, tier: Tier) -> u64 {
        match tier {
            Tier::Quick => 100,
            Tier::Thorough => 1200,
        }
    }
    fn required_counters(&self) -> Vec<&'static str> {
        vec!["programs_compiled_and_run", "reference_compared", "api_twin_compared", "alpha_twins_compared", "tag_match", "tag_matche", "tag_matcha", "tag_matchu"]
    }
    fn run_batch(&self, tier: Tier, seed: u64) -> Option<Merged> {
        let (cases, lterms) = Self::build_cases(tier, seed);
        Some(run_surface_batch("C13", cases, lterms, seed, true))
    }
    fn run_case(&self, gen: &str, seed: u64, index: u64, tier: Tier) -> CaseOut {
        // replay of one surface case (violation files name them `surface:<k>`)
        if gen != "surface" {
            return CaseOut::default();
        }
        let (cases, _) = Self::build_cases(tier, seed);
        replay_case("C13", cases, index as usize, seed, true)
    }
}

impl C13 {
    fn build_cases(tier: Tier, seed: u64) -> (Vec<SurfCase>, Vec<LtermCase>) {
        let n = if tier == Tier::Thorough { 4000 } else { 300 };
        let mut cases = vec![];
        for i in 0..n {
            let mut rng = Rng::for_case(seed, "c13", i as u64);
            let prog = MatchGen { rng: &mut rng, next_var: 0 }.program();
            let tag = {
                fn kind(g: &crate::ast::G) -> Option<&'static str> {
                    match g {
                        crate::ast::G::Match(k, ..) => Some(k.name()),
                        _ => g.clauses().iter().flat_map(|c| c.iter()).find_map(kind),
                    }
                }
                prog.body.iter().find_map(kind).unwrap_or("match")
            };
            let k = cases.len();
            cases.push(SurfCase { prog: prog.clone(), naming: Naming::Distinct, twin_of: None, infinite: false, ordered: false, tag });
            cases.push(SurfCase { prog, naming: Naming::Clash, twin_of: Some(k), infinite: false, ordered: false, tag });
        }
                (cases, vec![])
    }
}
