//! C16 — CLP(FD) answers satisfy every posted finite-domain constraint.
use super::fd;
use crate::framework::*;
use crate::util::Rng;
use std::collections::BTreeSet;

pub struct C16;

impl Check for C16 {
    fn id(&self) -> &'static str {
        "C16"
    }
    fn gens(&self) -> Vec<GenSpec> {
        fd::gens()
    }
    fn rule(&self) -> &'static str {
        RULE
    }
    fn assumptions(&self) -> Vec<String> {
        vec![
            "reference: brute-force enumeration of the domain product filtered by integer arithmetic (pvmon::refsem::label), no propagation".into(),
            "well-formed programs only: operands are variables or integers, every FD variable gets a domain somewhere in the conjunction".into(),
        ]
    }
    fn floor(&self, tier: Tier) -> u64 {
        match tier {
            Tier::Quick => 2000,
            Tier::Thorough => 80_000,
        }
    }
    fn required_counters(&self) -> Vec<&'static str> {
        vec!["answers_checked_sound", "answers_checked_arithmetically", "probe_states_checked", "programs_with_solutions", "programs_unsatisfiable"]
    }
    fn run_case(&self, gen: &str, seed: u64, index: u64, tier: Tier) -> CaseOut {
        let mut out = CaseOut::default();
        let mut rng = Rng::for_case(seed, gen, index);
        let prog = fd::gen_program(gen, &mut rng, index, tier);
        let seeds = if tier == Tier::Thorough { 8 } else { 4 };
        if let Some(obs) = fd::observe(&prog, seeds, &mut out) {
            fd::judge(&obs, fd::Mode::Sound, &mut out);
            if index % 499 == 7 || (gen == "fixed" && index == 0) {
                out.sample = Some(super::common::sample_json(&prog, &obs.runs[0].answers, &format!("brute force: {}", crate::canon::show_answers(&obs.expected))));
            }
        }
        let mut seen = BTreeSet::new();
        out.violations.retain(|v| seen.insert(v.signature.clone()));
        out
    }
}

const RULE: &str = "'random': 1-4 FD variables (1..n of them query variables, the rest hidden under fresh), interval or sparse domains over a window lo..=hi with lo in -3..=0 and hi in 1..=4 (sparse ones also as unsorted vectors with duplicates, several variables also through one infdrange over a list), 1-6 constraints drawn from ltefd, ltfd, plusfd, minusfd, timesfd (double weight), diseqfd, ==, distinctfd (lists of 2-5 operands), every operand a variable (any, so aliasing is arbitrary) or with probability 1/5 a constant, domains inserted at random positions (before or after the constraints that use them), occasionally a conde of bindings in the middle; 'aliased': the same with at most 2 variables; 'structured': the query variable is bound to a list, Pair, [Some([..])] or improper list holding the visible FD variables; 'fixed': 14 hand-written programs (operand aliasing, negative and zero-containing timesfd, distinctfd after its bindings / with the same variable twice / duplicate constants, domains after constraints, var-var ==, unsorted duplicated sparse vectors, hidden variables, FD variable bound to a non-number). Each program is run on 4 (quick) / 8 (thorough) fresh threads (different hash seeds, hence different constraint wake-up and labeling orders); every answer must be one of the brute-force solutions of the program (domain product enumerated by pvmon::refsem, projected onto the query variables) and, when all variables are visible, must satisfy every constraint by direct integer arithmetic on the answer; one more run with a probe after every goal checks the state invariants (no variable both bound and holding a domain, no empty or singleton stored domain, acyclic substitution) at every probe and final state. Distinct = distinct program text; non-trivial = at least one FD constraint.";
