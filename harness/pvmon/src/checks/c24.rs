//! C24 — library list relations implement their documented relations.
use super::common::*;
use crate::ast::*;
use crate::canon::*;
use crate::framework::*;
use crate::refsem::RefErr;
use crate::run::*;
use crate::term::{T, V};
use crate::util::Rng;
use std::collections::{BTreeMap, BTreeSet};

pub struct C24;

const RELS: [Rel; 10] = [Rel::Member, Rel::Member1, Rel::Append, Rel::Rember, Rel::Permute, Rel::Distinct, Rel::Cons, Rel::First, Rel::Rest, Rel::Empty];

fn proper(t: &T) -> Option<Vec<T>> {
    let (items, tail) = t.unroll();
    if *tail == T::Nil {
        Some(items.into_iter().cloned().collect())
    } else {
        None
    }
}

/// Vec-based definition of each relation on GROUND arguments.
pub fn holds(rel: Rel, a: &[T]) -> bool {
    match rel {
        Rel::Member | Rel::Member1 => match proper_prefix_contains(&a[1], &a[0]) {
            Some(b) => b,
            None => false,
        },
        Rel::Append => {
            // ls is l followed by s (l proper; s may be any term, then ls is improper)
            match proper(&a[0]) {
                Some(l) => T::improper(l, a[1].clone()) == a[2],
                None => false,
            }
        }
        Rel::Rember => {
            // walk the cons cells of ls (it may be improper): the first element equal to x is
            // removed; if there is none, ls must end in [] and out is ls itself
            let (items, tail) = a[1].unroll();
            match items.iter().position(|e| **e == a[0]) {
                Some(p) => {
                    let mut v: Vec<T> = items.iter().map(|e| (*e).clone()).collect();
                    v.remove(p);
                    T::improper(v, tail.clone()) == a[2]
                }
                None => *tail == T::Nil && a[1] == a[2],
            }
        }
        Rel::Permute => match (proper(&a[0]), proper(&a[1])) {
            (Some(mut x), Some(mut y)) => {
                x.sort();
                y.sort();
                x == y
            }
            _ => false,
        },
        Rel::Distinct => match proper(&a[0]) {
            Some(l) => {
                let s: BTreeSet<&T> = l.iter().collect();
                s.len() == l.len()
            }
            None => false,
        },
        Rel::Cons => T::cons(a[0].clone(), a[1].clone()) == a[2],
        Rel::First => matches!(&a[0], T::Cons(h, _) if **h == a[1]),
        Rel::Rest => matches!(&a[0], T::Cons(_, t) if **t == a[1]),
        Rel::Empty => a[0] == T::Nil,
    }
}

/// member on a possibly improper list: true if x is among the elements before the tail
/// (the relation walks cons cells only).
fn proper_prefix_contains(l: &T, x: &T) -> Option<bool> {
    let (items, _tail) = l.unroll();
    Some(items.iter().any(|e| *e == x))
}

pub const KNOWN_PERMUTE: &str = "permute(xl, yl) holds although yl is only a permutation of a proper sub-multiset of xl (rember of an absent element succeeds)";

/// The shape of the recorded permute defect: yl is a permutation of a PROPER sub-multiset of xl.
fn is_proper_subperm(a: &[T]) -> bool {
    match (proper(&a[0]), proper(&a[1])) {
        (Some(x), Some(y)) => {
            if y.len() >= x.len() {
                return false;
            }
            let mut rest = x.clone();
            for e in y.iter() {
                match rest.iter().position(|r| r == e) {
                    Some(p) => {
                        rest.remove(p);
                    }
                    None => return false,
                }
            }
            true
        }
        _ => false,
    }
}

/// Expected number of answers for ground arguments (multiplicity rules of the property).
fn ground_multiplicity(rel: Rel, a: &[T]) -> usize {
    if !holds(rel, a) {
        return 0;
    }
    match rel {
        Rel::Member => a[1].unroll().0.iter().filter(|e| ***e == a[0]).count(),
        _ => 1,
    }
}

fn atom(rng: &mut Rng) -> T {
    [T::Int(1), T::Int(2), T::Int(3), T::s("a")][if rng.chance(3, 4) { rng.below(2) } else { rng.below(4) }].clone()
}

fn glist(rng: &mut Rng, max: usize) -> T {
    let n = rng.below(max + 1);
    T::list((0..n).map(|_| atom(rng)).collect())
}

/// An argument in one of the modes: ground, partially ground (variables as elements or tail),
/// fresh variable.
fn arg(rng: &mut Rng, want_list: bool, vars: &mut Vec<V>, next: &mut V) -> T {
    let mut newv = |vars: &mut Vec<V>, rng: &mut Rng| -> T {
        if !vars.is_empty() && rng.chance(1, 4) {
            return T::Var(*rng.pick(vars));
        }
        let x = *next;
        *next += 1;
        vars.push(x);
        T::Var(x)
    };
    match rng.below(10) {
        0 | 1 | 2 => newv(vars, rng),
        3 | 4 if want_list => {
            let n = 1 + rng.below(3);
            // elements may themselves be short lists of variables: relations that post
            // disequalities (distinct, rember, member1) then store multi-pair constraints
            let nested = rng.chance(1, 3);
            let items: Vec<T> = (0..n)
                .map(|_| {
                    if nested {
                        let a = if rng.chance(2, 3) { newv(vars, rng) } else { atom(rng) };
                        let b = if rng.chance(2, 3) { newv(vars, rng) } else { atom(rng) };
                        T::list(vec![a, b])
                    } else if rng.chance(1, 2) {
                        newv(vars, rng)
                    } else {
                        atom(rng)
                    }
                })
                .collect();
            if rng.chance(1, 4) {
                let tl = newv(vars, rng);
                T::improper(items, tl)
            } else {
                T::list(items)
            }
        }
        _ => {
            if want_list {
                glist(rng, 4)
            } else if rng.chance(1, 6) {
                glist(rng, 2)
            } else {
                atom(rng)
            }
        }
    }
}

fn small_universe() -> Vec<T> {
    let a = [T::Int(1), T::Int(2)];
    let mut u: Vec<T> = a.to_vec();
    u.push(T::Nil);
    for x in a.iter() {
        u.push(T::list(vec![x.clone()]));
        for y in a.iter() {
            u.push(T::list(vec![x.clone(), y.clone()]));
        }
    }
    u
}

impl Check for C24 {
    fn id(&self) -> &'static str {
        "C24"
    }
    fn gens(&self) -> Vec<GenSpec> {
        vec![GenSpec { name: "modes", quick: 12_000, thorough: 600_000 }, GenSpec { name: "ground", quick: 6000, thorough: 200_000 }, GenSpec { name: "known", quick: 2, thorough: 2 }]
    }
    fn rule(&self) -> &'static str {
        "member, member1, append, rember, permute, distinct, cons, first, rest, empty called with every argument independently ground / partially ground (variables as elements or as an open tail, shared between arguments) / fresh, over lists of length <= 4 with repeated elements, optionally with bindings posted AFTER (or before) the call that ground an argument or merely alias two of the call's variables (also in chains). 'ground': all arguments ground: the number of answers must be the Vec-based multiplicity (member: one per matching position; member1, append, rember, permute, distinct, cons, first, rest, empty: one iff the relation holds). 'modes': (a) soundness: every ground instance (over a small universe, honouring the attached disequalities) of every answer must satisfy the Vec-based definition; (b) finite modes: the answer multiset equals the reference's; (c) completeness: every ground argument tuple over the universe {1, 2, [], [x], [x, y]} that satisfies the Vec-based definition and matches the call must be an instance of one of the first 60 answers; for member1 additionally no two answers may share a ground instance. Distinct = distinct call text; non-trivial = the call has at least one variable and at least one answer."
    }
    fn assumptions(&self) -> Vec<String> {
        vec!["Vec-based definitions in checks::c24::holds (append allows an arbitrary second argument; member walks cons cells of improper lists)".into(), "completeness is checked only for solutions inside the small universe and among the first 60 answers".into()]
    }
    fn floor(&self, tier: Tier) -> u64 {
        match tier {
            Tier::Quick => 3000,
            Tier::Thorough => 40_000,
        }
    }
    fn required_counters(&self) -> Vec<&'static str> {
        vec!["ground_calls_checked", "instances_checked_sound", "finite_modes_compared_with_reference", "completeness_checked", "infinite_modes_observed", "rel_member", "rel_member1", "rel_append", "rel_rember", "rel_permute", "rel_distinct", "rel_cons", "rel_first", "rel_rest", "rel_empty"]
    }
    fn run_case(&self, gen: &str, seed: u64, index: u64, _tier: Tier) -> CaseOut {
        let mut out = CaseOut::default();
        let mut rng = Rng::for_case(seed, gen, index);
        let rel = RELS[(index as usize) % RELS.len()];
        out.count(&format!("rel_{}", rel.name()), 1);
        let list_pos: &[bool] = match rel {
            Rel::Member | Rel::Member1 => &[false, true],
            Rel::Append => &[true, true, true],
            Rel::Rember => &[false, true, true],
            Rel::Permute => &[true, true],
            Rel::Distinct | Rel::Empty => &[true],
            Rel::Cons => &[false, true, true],
            Rel::First => &[true, false],
            Rel::Rest => &[true, true],
        };
        let cfg = RunCfg { max_answers: 60, step_budget: 5_000, extra_next: 1, display: true };
        if gen == "known" {
            // the recorded permute finding, executed on every run so that its KNOWN-FINDING line is earned
            let prog = if index == 0 {
                Program::new(vec![0], vec![G::Call(Rel::Permute, vec![T::list(vec![T::Int(1)]), T::Nil]), G::Eq(T::Var(0), T::Int(0))])
            } else {
                Program::new(vec![0], vec![G::Call(Rel::Permute, vec![T::list(vec![T::Int(1), T::Int(2)]), T::Var(0)])])
            };
            let real = run_query(&prog, &cfg);
            if !usable(&real, &mut out, &prog, "known-finding probe") {
                return out;
            }
            out.count("known_finding_probes", 1);
            let bad = if index == 0 {
                !real.answers.is_empty()
            } else {
                real.answers.iter().any(|a| {
                    let q = a.tuple.unroll().0[0].clone();
                    q.is_ground() && is_proper_subperm(&[T::list(vec![T::Int(1), T::Int(2)]), q])
                })
            };
            if bad {
                out.violate("M-ref", KNOWN_PERMUTE, format!("answers {}", show_answers(&real.answers)), format!("{}", prog));
            }
            return out;
        }
        if gen == "ground" {
            let args: Vec<T> = list_pos
                .iter()
                .map(|l| if *l { glist(&mut rng, 4) } else { atom(&mut rng) })
                .collect();
            // bias towards calls that hold
            let args = if rng.chance(1, 2) { make_true(rel, &args, &mut rng) } else { args };
            let prog = Program::new(vec![0], vec![G::Call(rel, args.clone()), G::Eq(T::Var(0), T::Int(0))]);
            let real = run_query(&prog, &cfg);
            if !usable(&real, &mut out, &prog, "ground call") {
                return out;
            }
            out.count("ground_calls_checked", 1);
            let exp = ground_multiplicity(rel, &args);
            if real.answers.len() != exp && rel == Rel::Permute && exp == 0 && is_proper_subperm(&args) {
                out.violate("M-ref", KNOWN_PERMUTE, format!("{} answer(s) for a ground call that does not hold", real.answers.len()), format!("{}", prog));
            } else if real.answers.len() != exp {
                out.violate("M-ref", "number of answers of a ground call differs from the Vec-based definition", format!("{} answers, expected {} ({})", real.answers.len(), exp, if exp == 0 { "the relation does not hold" } else { "the relation holds" }), format!("{}", prog));
            }
            out.distinct.push(program_key(&prog));
            if index % 1999 == 0 {
                out.sample = Some(sample_json(&prog, &real.answers, &format!("expected multiplicity {}", exp)));
            }
            return out;
        }
        let mut vars: Vec<V> = vec![];
        let mut next: V = 0;
        let args: Vec<T> = list_pos.iter().map(|l| arg(&mut rng, *l, &mut vars, &mut next)).collect();
        if vars.is_empty() || vars.len() > 4 {
            out.count("skipped_var_count", 1);
            return out;
        }
        // optionally ground one variable by a binding posted after (or before) the call
        let mut body = vec![G::Call(rel, args.clone())];
        let nb = [0, 0, 1, 1, 2, 3][rng.below(6)];
        let mut bound: Vec<V> = vec![];
        for _ in 0..nb {
            let x = *rng.pick(&vars);
            if bound.contains(&x) {
                continue;
            }
            bound.push(x);
            // a value, or (two in five) another variable of the call: pure variable-to-variable
            // aliasing, also in chains through a third variable, leaves nothing ground
            let rhs = if vars.len() >= 2 && rng.chance(2, 5) {
                let others: Vec<V> = vars.iter().copied().filter(|y| *y != x).collect();
                T::Var(*rng.pick(&others))
            } else if rng.chance(2, 3) {
                atom(&mut rng)
            } else {
                glist(&mut rng, 2)
            };
            let b = G::Eq(T::Var(x), rhs);
            if rng.chance(2, 3) {
                body.push(b);
            } else {
                body.insert(0, b);
            }
        }
        let prog = Program::new(vars.clone(), body.clone());
        let real = run_query_prefix(&prog, &cfg);
        out.count("programs", 1);
        if let Some(p) = &real.panic {
            out.violate("M-panic", &format!("panic {} at {}", p.message, p.location), format!("panic '{}' at {}", p.message, p.location), format!("{}", prog));
            return out;
        }
        let finite = real.ended && !real.budget_exceeded;
        if !finite {
            out.count("infinite_modes_observed", 1);
        }
        let uni = small_universe();
        // the extra bindings of the program, as a filter on assignments
        let extra: Vec<(V, T)> = body.iter().filter_map(|g| if let G::Eq(T::Var(x), t) = g { Some((*x, t.clone())) } else { None }).collect();
        // (a) soundness of every answer
        let mut covered: BTreeSet<T> = BTreeSet::new();
        let mut per_answer: Vec<BTreeSet<T>> = vec![];
        let mut too_wide = false;
        for a in real.answers.iter() {
            match instances(a, &uni) {
                Some(inst) => {
                    for tuple in inst.iter() {
                        let vals: Vec<T> = tuple.unroll().0.into_iter().cloned().collect();
                        let m: BTreeMap<V, T> = vars.iter().copied().zip(vals.into_iter()).collect();
                        let ga: Vec<T> = args.iter().map(|t| t.subst(&m)).collect();
                        if ga.iter().all(|t| t.is_ground()) {
                            out.count("instances_checked_sound", 1);
                            if rel == Rel::Permute && !holds(rel, &ga) && is_proper_subperm(&ga) && !extra.iter().any(|(x, t)| m[x] != t.subst(&m)) {
                                out.violate("M-ref", KNOWN_PERMUTE, format!("answer {} instantiated to permute({}, {})", a, ga[0], ga[1]), format!("{}", prog));
                                break;
                            }
                            if !holds(rel, &ga) || extra.iter().any(|(x, t)| m[x] != t.subst(&m)) {
                                out.violate("M-ref", "an answer of a library relation has a ground instance that does not satisfy the relation", format!("answer {} instantiated to {}({}) does not hold", a, rel.name(), ga.iter().map(|t| format!("{}", t)).collect::<Vec<_>>().join(", ")), format!("{}", prog));
                                break;
                            }
                        }
                    }
                    covered.extend(inst.iter().cloned());
                    per_answer.push(inst);
                }
                None => {
                    // too many free variables to enumerate: no completeness verdict for this call
                    too_wide = true;
                    out.count("answers_too_wide_for_instance_enumeration", 1);
                }
            }
        }
        // member1: exactly one answer per distinct matching value => answers are pairwise disjoint
        if rel == Rel::Member1 || rel == Rel::Append || rel == Rel::Cons || rel == Rel::Rember {
            'dj: for i in 0..per_answer.len() {
                for j in (i + 1)..per_answer.len() {
                    if let Some(common) = per_answer[i].intersection(&per_answer[j]).next() {
                        out.violate("M-ref", "a solution is returned more than once", format!("answers #{} and #{} share the ground instance {} | answers {}", i, j, common, show_answers(&real.answers)), format!("{}", prog));
                        break 'dj;
                    }
                }
            }
        }
        // (c) completeness inside the small universe
        if !too_wide && vars.len() <= 4 && (finite || real.answers.len() >= cfg.max_answers) {
            let n = uni.len();
            let k = vars.len();
            let mut missing: Vec<String> = vec![];
            for idx in 0..n.pow(k as u32) {
                let mut m = BTreeMap::new();
                let mut r = idx;
                for x in vars.iter() {
                    m.insert(*x, uni[r % n].clone());
                    r /= n;
                }
                if extra.iter().any(|(x, t)| m[x] != t.subst(&m)) {
                    continue;
                }
                let ga: Vec<T> = args.iter().map(|t| t.subst(&m)).collect();
                if holds(rel, &ga) {
                    let tuple = T::list(vars.iter().map(|x| m[x].clone()).collect());
                    if !covered.contains(&tuple) && missing.len() < 3 {
                        // for infinite modes only demand solutions that are small enough to be early
                        if finite || tuple.size() <= 9 {
                            missing.push(format!("{}", tuple));
                        }
                    }
                }
            }
            out.count("completeness_checked", 1);
            if !missing.is_empty() {
                out.violate("M-ref", "a solution of a library relation is not covered by any answer", format!("solutions {:?} (values of {:?}) are instances of no answer among the first {}: {}", missing, vars, real.answers.len(), show_answers(&real.answers)), format!("{}", prog));
            }
        }
        // (b) finite modes vs the clause-level reference
        if finite {
            match ref_answers(&prog, false) {
                Ok(r) => {
                    out.count("finite_modes_compared_with_reference", 1);
                    let u2 = universe(&prog, &[]);
                    if let Cmp::Different(why) = compare_multisets(&real.answers, &r, &u2) {
                        out.violate("M-ref", "answers of a library relation differ from the reference clause definition", format!("{} | real {} | reference {}", why, show_answers(&real.answers), show_answers(&r)), format!("{}", prog));
                    }
                }
                Err(RefErr::Fuel) | Err(RefErr::TooManyStates) => {
                    out.count("reference_gave_up", 1);
                }
                Err(e) => out.inconclusive.push(format!("reference: {:?}", e)),
            }
        }
        if !real.answers.is_empty() {
            out.distinct.push(program_key(&prog));
        }
        if index % 1999 == 3 {
            out.sample = Some(sample_json(&prog, &real.answers, if finite { "finite mode" } else { "infinite mode: first 60 answers" }));
        }
        let mut seen = BTreeSet::new();
        out.violations.retain(|v| seen.insert(v.signature.clone()));
        out
    }
}

/// Adjust ground arguments so that the relation holds (keeps the call shapes interesting).
fn make_true(rel: Rel, a: &[T], rng: &mut Rng) -> Vec<T> {
    let l0 = proper(&a[0]).unwrap_or_default();
    match rel {
        Rel::Member | Rel::Member1 => {
            let l = proper(&a[1]).unwrap_or_default();
            if l.is_empty() {
                a.to_vec()
            } else {
                vec![l[rng.below(l.len())].clone(), a[1].clone()]
            }
        }
        Rel::Append => {
            let s = proper(&a[1]).unwrap_or_default();
            let mut ls = l0.clone();
            ls.extend(s);
            vec![a[0].clone(), a[1].clone(), T::list(ls)]
        }
        Rel::Rember => {
            let mut v = proper(&a[1]).unwrap_or_default();
            if let Some(p) = v.iter().position(|e| *e == a[0]) {
                v.remove(p);
            }
            vec![a[0].clone(), a[1].clone(), T::list(v)]
        }
        Rel::Permute => {
            let mut v = l0.clone();
            rng.shuffle(&mut v);
            vec![a[0].clone(), T::list(v)]
        }
        Rel::Distinct => {
            let mut seen = BTreeSet::new();
            let v: Vec<T> = l0.into_iter().filter(|e| seen.insert(e.clone())).collect();
            vec![T::list(v)]
        }
        Rel::Cons => vec![a[0].clone(), a[1].clone(), T::cons(a[0].clone(), a[1].clone())],
        Rel::First => {
            if l0.is_empty() {
                a.to_vec()
            } else {
                vec![a[0].clone(), l0[0].clone()]
            }
        }
        Rel::Rest => {
            if l0.is_empty() {
                a.to_vec()
            } else {
                vec![a[0].clone(), T::list(l0[1..].to_vec())]
            }
        }
        Rel::Empty => vec![T::Nil],
    }
}
