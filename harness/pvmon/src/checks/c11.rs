//! C11 — project sees the current value of projected variables in every branch.
use super::common::*;
use super::surface::*;
use crate::emit::Naming;
use crate::ast::*;
use crate::build::take_proj_log;
use crate::canon::*;
use crate::framework::*;
use crate::run::*;
use crate::term::{T, V};
use crate::util::Rng;
use std::collections::BTreeSet;

pub struct C11;

fn v(i: V) -> T {
    T::Var(i)
}

const Q0: V = 0;
const Q1: V = 1;
const X: V = 2;
const Y: V = 3;

/// A list of `base + (0..extra)` small integers.
fn ints(rng: &mut Rng, base: usize, extra: usize) -> T {
    let n = base + if extra > 0 { rng.below(extra) } else { 0 };
    T::list((0..n).map(|_| T::Int(rng.range(1, 4))).collect())
}

/// Goals that make several states reach the project goal, with x (and y) bound differently.
fn prefix(rng: &mut Rng) -> (Vec<G>, bool) {
    match rng.below(9) {
        0 => (vec![G::Call(Rel::Member, vec![v(X), ints(rng, 2, 3)])], false),
        1 => (vec![G::Conde(vec![vec![G::Eq(v(X), T::Int(1))], vec![G::Eq(v(X), T::Int(2))], vec![G::Eq(v(X), T::list(vec![v(Y)]))]])], false),
        2 => (vec![G::Eq(v(X), T::list(vec![v(Y), T::Int(10)])), G::Call(Rel::Member, vec![v(Y), ints(rng, 2, 2)])], false),
        3 => (vec![G::Loop(vec![vec![G::Call(Rel::Member, vec![v(X), ints(rng, 2, 0)])]])], true),
        4 => (vec![], false),
        5 if rng.chance(1, 2) => (vec![G::Eq(v(X), T::pair(T::list(vec![T::Int(0), v(Y)]), T::Int(1))), G::Conde(vec![vec![G::Eq(v(Y), T::Int(1))], vec![G::Eq(v(Y), T::list(vec![T::Int(2)]))], vec![G::Succeed]])], false),
        5 => (vec![G::Eq(v(X), T::pair(v(Y), T::Int(1))), G::Conde(vec![vec![G::Eq(v(Y), T::Int(1))], vec![G::Eq(v(Y), T::Int(2))], vec![G::Succeed]])], false),
        6 => (vec![G::Call(Rel::Member, vec![v(X), ints(rng, 2, 0)]), G::Call(Rel::Member, vec![v(Y), ints(rng, 2, 0)])], false),
        7 => (vec![G::Eq(v(X), T::improper(vec![T::Int(0)], v(Y))), G::Conde(vec![vec![G::Eq(v(Y), T::Nil)], vec![G::Eq(v(Y), T::list(vec![T::Int(5)]))]])], false),
        _ => (vec![G::Eq(v(X), T::Int(7))], false),
    }
}

fn body(rng: &mut Rng, depth: usize) -> Vec<G> {
    let mut b = vec![];
    if rng.chance(1, 2) {
        // a multi-answer goal first: the rest of the body is suspended and resumed later
        b.push(G::Call(Rel::Member, vec![v(Q1), ints(rng, 2, 2)]));
    }
    let n = 1 + rng.below(3);
    for _ in 0..n {
        let g = match rng.below(7) {
            0 | 1 => G::Eq(v(Q0), v(X)),
            2 => G::Eq(v(Q0), T::improper(vec![v(X)], v(X))),
            3 => G::Diseq(v(Q1), v(X)),
            4 => G::Conde(vec![vec![G::Eq(v(Q0), v(X))], vec![G::Eq(v(Q0), T::list(vec![v(X), v(Y)]))]]),
            5 if depth > 0 => G::Project(vec![Y], body(rng, depth - 1)),
            _ => G::Eq(v(Q1), v(Y)),
        };
        b.push(g);
    }
    b
}

/// `|q0, q1| { |x, y| { prefix, project |x| (or |x, y|) { body } } }`. `last`: nothing follows the
/// project goal in its scope (needed in surface syntax, where the body closure takes the variables
/// it mentions by move).
fn project_program(rng: &mut Rng, last: bool) -> (Program, bool, bool) {
    let (pre, infinite) = prefix(rng);
    let pv = if rng.chance(1, 3) { vec![X, Y] } else { vec![X] };
    let b = body(rng, 1);
    let nested = b.iter().any(|g| g.has_kind("project"));
    let mut inner = pre.clone();
    inner.push(G::Project(pv, b));
    if !last && rng.chance(1, 4) {
        inner.push(G::Eq(v(Q1), v(Q1)));
    }
    (Program::new(vec![Q0, Q1], vec![G::Fresh(vec![X, Y], inner)]), infinite, nested)
}

impl C11 {
    /// The same programs written in surface syntax and compiled (the macro expansion of `project`
    /// end to end); answers against the reference (project = walk*) and the API-built twin.
    fn surface_cases(tier: Tier, seed: u64) -> Vec<SurfCase> {
        let n = if tier == Tier::Thorough { 2500 } else { 160 };
        (0..n)
            .map(|i| {
                let mut rng = Rng::for_case(seed, "c11-surface", i as u64);
                // a project nested in a project body does not compile in surface syntax (the inner
                // `move` closure would move variables out of the outer `Fn` closure, E0507); nesting
                // is covered by the API lane
                let (prog, infinite) = loop {
                    let (prog, infinite, nested) = project_program(&mut rng, true);
                    if !nested {
                        break (prog, infinite);
                    }
                };
                SurfCase { prog, naming: if i % 2 == 0 { Naming::Clash } else { Naming::Distinct }, twin_of: None, infinite, ordered: false, tag: "project" }
            })
            .collect()
    }
}

impl Check for C11 {
    fn id(&self) -> &'static str {
        "C11"
    }
    fn gens(&self) -> Vec<GenSpec> {
        vec![GenSpec { name: "project", quick: 6000, thorough: 300_000 }]
    }
    fn rule(&self) -> &'static str {
        "Programs `|x, y| { prefix, project |x| (or |x, y|) { body } }` with two query variables. Prefixes make 1..n states reach the SAME project goal object: member over 2-4 values, conde of bindings (incl. x bound to a list holding y), x bound to a shared structured term ([y, 10], Pair(y, 1), Pair([0, y], 1), [0 | y]) whose inner variable is bound differently per branch, two members (product of states), x unbound, and an infinite loop prefix (first 8 answers). Bodies of 1-4 goals use the projected value (q == x, q == [x | x], q != x, conde, nested project on y), half of them behind a multi-answer goal so that the rest of the body is suspended and resumed after other states have reached the project goal. Monitors: M-proj, built into every project body at its start and end: walk*(projected term) == walk*(original variable) in the state that runs the body; the answers equal the reference's (project = walk*) as multisets (soundness of a prefix for the infinite lane); the same Query value run twice gives the same answers; no panic. A compiled lane writes the same programs (without nested project) in surface syntax, compiles them against the current tree and compares the answers with the reference and with the API-built twin, so that the macro expansion of `project` is observed end to end. Distinct = distinct program text; non-trivial = the project goal was reached by at least 2 states."
    }
    fn assumptions(&self) -> Vec<String> {
        vec!["M-proj lives in the body that the harness hands to the real `project |..| { .. }` macro as a Rust-expression clause (1-3 projected variables)".into()]
    }
    fn floor(&self, tier: Tier) -> u64 {
        match tier {
            Tier::Quick => 2500,
            Tier::Thorough => 100_000,
        }
    }
    fn required_counters(&self) -> Vec<&'static str> {
        vec!["programs_compiled_and_run", "api_twin_compared", "projection_observations", "programs_reached_by_3plus_states", "reference_compared", "second_run_compared", "infinite_prefix_programs", "nested_project_programs", "miri_cases_run", "miri_direct_projection_checks"]
    }
    fn miri_lane(&self, tier: Tier) -> Option<(Vec<(&'static str, u64, u64)>, bool)> {
        // the unsafe projection write driven directly + project programs, interpreted by Miri
        Some((vec![("project", 0, if tier == Tier::Thorough { 48 } else { 6 })], true))
    }
    fn run_batch(&self, tier: Tier, seed: u64) -> Option<Merged> {
        Some(run_surface_batch("C11", Self::surface_cases(tier, seed), vec![], seed, true))
    }
    fn run_case(&self, gen: &str, seed: u64, index: u64, tier: Tier) -> CaseOut {
        if gen == "surface" {
            return replay_case("C11", Self::surface_cases(tier, seed), index as usize, seed, true);
        }
        let _tier = tier;
        let mut out = CaseOut::default();
        let mut rng = Rng::for_case(seed, gen, index);
        let (prog, infinite, nested) = project_program(&mut rng, false);
        let n = if infinite { 8 } else { 5000 };
        let cfg = RunCfg { max_answers: n, step_budget: 1_000_000, extra_next: 1, display: true };
        let _ = take_proj_log();
        let runs = run_same_query_n(&prog, &cfg, 2);
        let (obs, mism) = take_proj_log();
        out.count("programs", 1);
        out.count("projection_observations", obs);
        if infinite {
            out.count("infinite_prefix_programs", 1);
        }
        if nested {
            out.count("nested_project_programs", 1);
        }
        for (k, r) in runs.iter().enumerate() {
            if let Some(p) = &r.panic {
                out.violate("M-panic", &format!("panic {} at {}", p.message, p.location), format!("run {}: panic '{}' at {}", k + 1, p.message, p.location), format!("{}", prog));
                return out;
            }
            if r.budget_exceeded {
                out.inconclusive.push("step budget exceeded".into());
                return out;
            }
        }
        if !mism.is_empty() {
            out.violate("M-proj", "a project body observed a value that is not the current value of the projected variable", mism.join(" | "), format!("{}", prog));
        }
        let uni = universe(&prog, &[]);
        // reference
        let mut r = crate::refsem::Ref::new(&prog);
        r.set_reading = infinite;
        match r.run() {
            Ok(ra) => {
                let rans: Vec<Ans> = ra.iter().map(Ans::from_ref).collect();
                out.count("reference_compared", 1);
                if infinite {
                    for a in runs[0].answers.iter() {
                        if !rans.iter().any(|x| crate::term::variants(&x.tuple, &a.tuple)) {
                            out.violate("M-ref", "project program produced an answer that is not an answer of the program", format!("answer {} not among {}", a, show_answers(&rans)), format!("{}", prog));
                            break;
                        }
                    }
                } else if cut_at_cap(runs[0].ended, runs[0].answers.len(), true, rans.len()) {
                    out.count("comparisons_skipped_answer_cap", 1);
                } else if let Cmp::Different(why) = compare_multisets(&runs[0].answers, &rans, &uni) {
                    out.violate("M-ref", "answers of a project program differ from the reference (project = walk*)", format!("{} | real {} | reference {}", why, show_answers(&runs[0].answers), show_answers(&rans)), format!("{}", prog));
                }
                if rans.len() >= 3 {
                    out.count("programs_reached_by_3plus_states", 1);
                }
                if rans.len() >= 2 {
                    out.distinct.push(program_key(&prog));
                }
            }
            Err(e) => out.inconclusive.push(format!("reference: {:?}", e)),
        }
        if runs.len() == 2 {
            out.count("second_run_compared", 1);
            if super::c09::l1_text(&runs[0].answers) != super::c09::l1_text(&runs[1].answers) {
                out.violate("M-seed", "running the same Query value a second time gives different answers", format!("first {} | second {}", show_answers(&runs[0].answers), show_answers(&runs[1].answers)), format!("{}", prog));
            }
        }
        if index % 997 == 2 {
            out.sample = Some(sample_json(&prog, &runs[0].answers, &format!("{} projection observations, all consistent: {}", obs, mism.is_empty())));
        }
        let mut seen = BTreeSet::new();
        out.violations.retain(|v| seen.insert(v.signature.clone()));
        out
    }
}
