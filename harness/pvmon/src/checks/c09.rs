//! C09 — query iteration is lazy, fused and deterministic.
use super::common::*;
use crate::ast::*;
use crate::canon::*;
use crate::framework::*;
use crate::gen::*;
use crate::run::*;
use crate::term::{T, V};
use crate::util::{fnv, Json, Rng};
use std::collections::BTreeSet;

pub struct C09;

fn v(i: V) -> T {
    T::Var(i)
}

/// L1 signature of an answer sequence: renamed answers, constraint sets and pairs sorted.
pub fn l1_text(answers: &[Ans]) -> String {
    answers.iter().map(|a| format!("{}", a.renamed())).collect::<Vec<_>>().join(" ; ")
}

fn l2_text(answers: &[Ans]) -> String {
    answers.iter().map(|a| format!("{}", a.renamed().solved())).collect::<Vec<_>>().join(" ; ")
}

pub fn det_program(gen: &str, rng: &mut Rng) -> Program {
    match gen {
        "det-fd" => {
            let cfg = FdCfg { max_vars: 4, max_cons: 6, ..FdCfg::default() };
            loop {
                let p = fd_program(rng, &cfg);
                let nfd = {
                    let mut n = 0;
                    for g in p.body.iter() {
                        g.visit_terms(&mut |_| {});
                        n += count_fd(g);
                    }
                    n
                };
                if nfd >= 3 {
                    return p;
                }
            }
        }
        "det-search" => {
            let mut cfg = SearchCfg::default();
            cfg.nq = 2;
            SearchGen::new(rng, cfg).program()
        }
        _ if rng.chance(1, 5) => {
            // variables that share a NAME (user-written `_`): a list of anonymous variables is taken
            // apart into named ones, a non-linear disequality chains them, and a later unification
            // re-runs the stored constraint. Whatever order the constraint's pairs are visited in
            // must not depend on the hash seed even when the names tie.
            let k = 3 + rng.below(2);
            let xs: Vec<V> = (10..10 + k as V).collect();
            let pick = |rng: &mut Rng| T::Var(xs[rng.below(k)]);
            let mut body = vec![G::Eq(v(0), T::list((0..k).map(|_| T::Any).collect())), G::Eq(T::list(xs.iter().map(|x| T::Var(*x)).collect()), v(0))];
            if rng.chance(1, 2) {
                body.swap(0, 1);
            }
            let n = 2 + rng.below(2);
            let a: Vec<T> = (0..n).map(|_| pick(rng)).collect();
            let b: Vec<T> = (0..n).map(|i| if i > 0 && rng.chance(2, 3) { a[i - 1].clone() } else { pick(rng) }).collect();
            let d = G::Diseq(T::list(a), T::list(b));
            let pos = rng.below(body.len() + 1);
            body.insert(pos, d);
            for _ in 0..1 + rng.below(2) {
                body.push(match rng.below(3) {
                    0 => G::Eq(v(1), T::Int(rng.range(1, 3))),
                    1 => G::Eq(pick(rng), pick(rng)),
                    _ => G::Eq(v(1), pick(rng)),
                });
            }
            Program::new(vec![0, 1], vec![G::Fresh(xs.clone(), body)])
        }
        _ => {
            let mut c = TreeCfg::default();
            c.nq = 2;
            c.hostile_diseq = true;
            c.max_goals = 6;
            c.compounds = rng.chance(1, 4);
            TreeGen::new(rng, c).program()
        }
    }
}

fn count_fd(g: &G) -> usize {
    let here = matches!(g, G::Ltefd(..) | G::Ltfd(..) | G::Plusfd(..) | G::Minusfd(..) | G::Timesfd(..) | G::Diseqfd(..) | G::Distinctfd(..)) as usize;
    here + g.clauses().iter().map(|c| c.iter().map(count_fd).sum::<usize>()).sum::<usize>()
}

/// Programs with infinitely many answers (for the laziness lane) together with a lower bound
/// on how many answers they must be able to deliver.
fn lazy_program(rng: &mut Rng) -> (Program, usize) {
    let c = |rng: &mut Rng| T::Int(rng.range(1, 5));
    let q = v(0);
    let fin = |rng: &mut Rng| -> G {
        match rng.below(3) {
            0 => G::Eq(q.clone(), c(rng)),
            1 => G::Call(Rel::Member, vec![q.clone(), T::list(vec![c(rng), c(rng), c(rng)])]),
            _ => G::Conde(vec![vec![G::Eq(q.clone(), c(rng))], vec![G::Eq(q.clone(), c(rng))]]),
        }
    };
    if rng.chance(1, 6) {
        // recursive closures whose recursive call is the first / only goal of its clause (no fresh
        // block in front): every unfolding must still be a separate search step, in BFS and in DFS
        let rel0 = RelDef { params: vec![900], body: vec![G::Cond(vec![vec![G::Eq(v(900), c(rng))], vec![G::RecCall(0, vec![v(900)])]])] };
        let rel1 = RelDef { params: vec![910], body: vec![G::Cond(vec![vec![G::RecCall(2, vec![v(910)])], vec![G::Eq(v(910), c(rng))]])] };
        let rel2 = RelDef { params: vec![920], body: vec![G::Cond(vec![vec![G::Eq(v(920), c(rng))], vec![G::RecCall(1, vec![v(920)])]])] };
        let call = G::RecCall(if rng.chance(1, 2) { 0 } else { 1 }, vec![q.clone()]);
        let body = match rng.below(3) {
            0 => vec![G::Dfs(vec![vec![call]])],
            1 => vec![call],
            _ => vec![G::Conde(vec![vec![G::Dfs(vec![vec![call]])], vec![G::Loop(vec![vec![fin(rng)]])]])],
        };
        return (Program { rels: vec![rel0, rel1, rel2], qvars: vec![0], body }, 12);
    }
    let body = match rng.below(7) {
        0 => vec![G::Loop(vec![vec![fin(rng)]])],
        1 => vec![G::Always, fin(rng)],
        2 => vec![fin(rng), G::Always],
        3 => vec![G::Conde(vec![vec![G::Never], vec![G::Loop(vec![vec![fin(rng)]])]])],
        4 => vec![G::Fresh(vec![5, 6], vec![G::Call(Rel::Append, vec![v(5), v(6), q.clone()])])],
        5 => {
            // a depth-first branch that diverges without answers next to a productive sibling
            let div = G::Dfs(vec![vec![G::Fresh(vec![7], vec![G::Call(Rel::Member, vec![q.clone(), v(7)]), G::Eq(q.clone(), T::Int(1)), G::Eq(q.clone(), T::Int(2))])]]);
            let mut cs = vec![vec![div], vec![G::Loop(vec![vec![fin(rng)]])]];
            if rng.chance(1, 2) {
                cs.reverse();
            }
            vec![G::Conde(cs)]
        }
        _ => vec![G::Conde(vec![vec![G::Always, fin(rng)], vec![G::Always, fin(rng)], vec![G::Never]])],
    };
    (Program::new(vec![0], body), 12)
}

impl Check for C09 {
    fn id(&self) -> &'static str {
        "C09"
    }
    fn gens(&self) -> Vec<GenSpec> {
        vec![
            GenSpec { name: "det-fd", quick: 1500, thorough: 40_000 },
            GenSpec { name: "det-tree", quick: 2500, thorough: 100_000 },
            GenSpec { name: "det-search", quick: 1500, thorough: 60_000 },
            GenSpec { name: "xproc", quick: 160, thorough: 8000 },
            GenSpec { name: "lazy", quick: 1500, thorough: 40_000 },
        ]
    }
    fn rule(&self) -> &'static str {
        "Determinism: 'det-fd' (FD programs with >= 3 interacting constraints, where wake-up and labeling order could follow hash order), 'det-tree' (==/!= programs with hostile subsuming disequalities; one in five takes a list of user-written `_` variables apart and chains them in a non-linear disequality, so the keys of the stored pairs all have the same NAME), 'det-search' (disjunction/recursion programs). Each program: the SAME Query value is run twice in one thread, the AST is rebuilt and run again, and it is run on 5 (quick) / 8 (thorough) fresh threads (fresh SipHash keys); 'xproc' additionally runs the program in 2 fresh PROCESSES. For every det-search program and a quarter of the others two iterators are alive at once: the first iterator of the query is suspended after 1-2 answers while a second iterator of the same query value is started and exhausted and an older, different query is run to its end, then the first is continued; both must yield the sequence of the query run alone. All answer sequences must be identical up to renaming of reified variables (first-occurrence order) and the order of constraints / pairs (L1). Differences are classified: equal after bringing every disequality to solved form (L2) = representation-only; equal as a multiset of ground-instance sets (L3) = order-only; otherwise semantic. Fused: after every exhausted stream next() is called 3 more times and must return None. Laziness: programs with infinitely many answers (loop, always, append with fresh arguments, never()/diverging dfs branch next to a producer, directly and mutually recursive closures without a fresh block run breadth-first and inside dfs { }) must deliver their first 12 answers within 2*10^6 engine steps (hook H1). Distinct = distinct program text; non-trivial = at least one answer."
    }
    fn assumptions(&self) -> Vec<String> {
        vec!["fresh threads and fresh processes stand for 'a different hash seed' (std RandomState keys are per thread)".into(), "laziness is decided as bounded progress in engine steps, not wall-clock".into()]
    }
    fn floor(&self, tier: Tier) -> u64 {
        match tier {
            Tier::Quick => 1500,
            Tier::Thorough => 60_000,
        }
    }
    fn required_counters(&self) -> Vec<&'static str> {
        vec!["sequences_compared", "interleaved_iterator_pairs", "exhausted_streams_probed_after_none", "lazy_prefixes_delivered", "cross_process_runs", "programs_with_constraint_answers", "fd_programs_with_answers"]
    }
    fn run_case(&self, gen: &str, seed: u64, index: u64, tier: Tier) -> CaseOut {
        let mut out = CaseOut::default();
        let mut rng = Rng::for_case(seed, gen, index);
        if gen == "lazy" {
            let (prog, n) = lazy_program(&mut rng);
            let cfg = RunCfg { max_answers: n, step_budget: 2_000_000, extra_next: 0, display: false };
            let r = run_query_prefix(&prog, &cfg);
            out.count("programs", 1);
            if let Some(p) = &r.panic {
                out.violate("M-panic", &format!("panic {} at {}", p.message, p.location), format!("panic '{}' at {}", p.message, p.location), format!("{}", prog));
                return out;
            }
            if r.answers.len() >= n {
                out.count("lazy_prefixes_delivered", 1);
                out.count("lazy_engine_steps", r.steps);
                out.distinct.push(program_key(&prog));
            } else {
                let why = if r.budget_exceeded { "step budget of 2000000 engine steps exceeded".to_string() } else { "the stream ended".to_string() };
                out.violate("M-step", "taking the first n answers of an infinite answer stream does not terminate within the step bound", format!("{} after {} of {} answers", why, r.answers.len(), n), format!("{}", prog));
            }
            if index % 499 == 0 {
                out.sample = Some(sample_json(&prog, &r.answers, "first 12 answers taken lazily"));
            }
            return out;
        }
        let dgen = if gen == "xproc" { ["det-fd", "det-tree", "det-search"][(index % 3) as usize] } else { gen };
        let prog = det_program(dgen, &mut rng);
        let cfg = RunCfg { max_answers: 3000, step_budget: 2_000_000, extra_next: 3, display: false };
        let mut runs: Vec<(String, SeedRun)> = vec![];
        for (k, r) in run_same_query_n(&prog, &cfg, 2).into_iter().enumerate() {
            runs.push((format!("same Query value, run {}", k + 1), r));
        }
        let rebuilt = run_query(&prog, &cfg);
        runs.push(("rebuilt AST, same thread".into(), SeedRun { answers: rebuilt.answers, ended: rebuilt.ended, budget_exceeded: rebuilt.budget_exceeded, fused_violation: rebuilt.fused_violation, panic: rebuilt.panic, steps: rebuilt.steps }));
        let nthreads = if tier == Tier::Thorough { 8 } else { 5 };
        for (k, r) in run_query_seeds(&prog, &cfg, nthreads).into_iter().enumerate() {
            runs.push((format!("fresh thread {}", k + 1), r));
        }
        out.count("programs", 1);
        for (name, r) in runs.iter() {
            if let Some(p) = &r.panic {
                out.violate("M-panic", &format!("panic {} at {}", p.message, p.location), format!("{}: panic '{}' at {}", name, p.message, p.location), format!("{}", prog));
                return out;
            }
            if r.budget_exceeded {
                out.inconclusive.push("step budget exceeded".into());
                return out;
            }
            if r.ended {
                out.count("exhausted_streams_probed_after_none", 1);
            }
            if r.fused_violation {
                out.violate("M-ans", "iterator returned Some after None", format!("{}: next() returned Some after the iterator had returned None", name), format!("{}", prog));
            }
        }
        // two iterators alive at the same time (det-search: relations create variables lazily while the
        // stream is consumed): an older query is run, and a second iterator of this query is started
        // and exhausted, while the first iterator is suspended after its first answer(s)
        if dgen == "det-search" || index % 4 == 0 {
            let other = det_program("det-search", &mut rng);
            let k = 1 + rng.below(2);
            let (i1, i2) = run_query_interleaved(&other, &prog, &cfg, k);
            if let Some(p) = &i1.panic {
                out.violate("M-panic", &format!("panic {} at {}", p.message, p.location), format!("interleaved iterators: panic '{}' at {}", p.message, p.location), format!("{}", prog));
                return out;
            }
            if i1.budget_exceeded {
                // the other query (or the three runs together) used up the step budget: no verdict
                out.count("interleaved_runs_over_budget", 1);
            } else {
            out.count("interleaved_iterator_pairs", 1);
            runs.push((format!("iterator 1, suspended after {} answer(s) while another query and a second iterator ran", k), i1));
            runs.push(("iterator 2, started while iterator 1 was suspended".into(), i2));
            }
        }
        let base = &runs[0].1;
        let base_l1 = l1_text(&base.answers);
        let uni = universe(&prog, &[]);
        for (name, r) in runs.iter().skip(1) {
            out.count("sequences_compared", 1);
            let t = l1_text(&r.answers);
            if t != base_l1 {
                report_difference(&mut out, &prog, &uni, &runs[0].0, &base.answers, name, &r.answers);
                break;
            }
        }
        if gen == "xproc" {
            // the same case in fresh processes: compare the L1 text hash
            let exe = std::env::current_exe().expect("exe");
            for k in 0..2 {
                let o = std::process::Command::new(&exe).arg("c09seq").arg(dgen).arg(seed.to_string()).arg(index.to_string()).output();
                match o {
                    Ok(o) if o.status.success() => {
                        out.count("cross_process_runs", 1);
                        let text = String::from_utf8_lossy(&o.stdout).trim().to_string();
                        if text != format!("{:x}", fnv(&base_l1)) {
                            out.violate("M-seed", "answer sequence differs between processes", format!("process {}: L1 hash {} vs in-process {:x}; in-process sequence: {}", k, text, fnv(&base_l1), base_l1), format!("{}", prog));
                        }
                    }
                    _ => out.inconclusive.push("child process for cross-process comparison failed".into()),
                }
            }
        }
        if !base.answers.is_empty() {
            out.distinct.push(program_key(&prog));
            if base.answers.iter().any(|a| !a.cons.is_empty()) {
                out.count("programs_with_constraint_answers", 1);
            }
            if dgen == "det-fd" {
                out.count("fd_programs_with_answers", 1);
            }
        }
        if index % 499 == 2 {
            out.sample = Some(Json::obj().with("program", Json::s(format!("{}", prog))).with("sequence_L1", Json::s(base_l1.chars().take(600).collect::<String>())).with("runs_compared", Json::Int(runs.len() as i64)));
        }
        let mut seen = BTreeSet::new();
        out.violations.retain(|v| seen.insert(v.signature.clone()));
        out
    }
}

fn report_difference(out: &mut CaseOut, prog: &Program, uni: &[T], name_a: &str, a: &[Ans], name_b: &str, b: &[Ans]) {
    let same_l2 = l2_text(a) == l2_text(b);
    let same_l3 = matches!(compare_multisets(a, b, uni), Cmp::Equal | Cmp::EqualTuplesOnly);
    let (sig, what) = if same_l2 {
        ("representation-only nondeterminism: a disequality is written in two equivalent ways across runs (pair iteration in DisequalityConstraint::run, src/relation/diseq.rs)", "equal after solving each disequality (L2)")
    } else if same_l3 {
        ("order-only nondeterminism: the same answers come in a different order across runs", "equal as a multiset of ground-instance sets (L3)")
    } else {
        ("semantic nondeterminism: the answers themselves differ across runs", "different even as a multiset of ground-instance sets")
    };
    out.violate("M-seed", sig, format!("'{}' vs '{}': {} | {} | {}", name_a, name_b, what, l1_text(a).chars().take(500).collect::<String>(), l1_text(b).chars().take(500).collect::<String>()), format!("{}", prog));
}
