//! C22 — user extension hooks observe a consistent constraint lifecycle.
use super::common::*;
use crate::ast::*;
use crate::build::*;
use crate::framework::*;
use crate::gen::*;
use crate::refsem::Ref;
use crate::run::*;
use crate::term::{T, V};
use crate::util::{Json, Rng};
use std::collections::{BTreeSet, HashMap};

pub struct C22;

fn v(i: V) -> T {
    T::Var(i)
}

/// Conservation law of the hook counters of one state.
fn conservation(state: &St) -> Option<String> {
    let stored = state.cstore_ref().iter().count() as i64;
    let w = state.user_state.with as i64;
    let t = state.user_state.take as i64;
    if w - t != stored {
        Some(format!("with_constraint calls {} - take_constraint calls {} = {} but the store holds {} constraint(s): {:?}", w, t, w - t, stored, state.cstore_ref().iter().map(|c| format!("{:?}", c).chars().take(80).collect::<String>()).collect::<Vec<_>>()))
    } else {
        None
    }
}

fn hostile_tree(rng: &mut Rng) -> Program {
    // subsuming / duplicate disequalities (store normalisation drops) and the bindings that decide them
    let mut c = TreeCfg::default();
    c.nq = 2;
    c.hostile_diseq = true;
    c.max_goals = 5;
    c.compounds = rng.chance(1, 5);
    let mut p = TreeGen::new(rng, c).program();
    if rng.chance(1, 2) {
        let a = T::Int(rng.range(1, 2));
        let b = T::Int(rng.range(1, 2));
        let extra = vec![G::Diseq(v(0), a.clone()), G::Diseq(T::list(vec![v(0), v(1)]), T::list(vec![a.clone(), b.clone()])), G::Diseq(T::list(vec![v(0), v(1)]), T::list(vec![a, b]))];
        for g in extra {
            let pos = rng.below(p.body.len() + 1);
            p.body.insert(pos, g);
        }
    }
    p
}

fn z_program(rng: &mut Rng) -> Program {
    let nv = 3;
    let mut goals = vec![];
    for _ in 0..1 + rng.below(2) {
        let o = |rng: &mut Rng| if rng.chance(1, 4) { T::Int(rng.range(-2, 3)) } else { v(rng.below(nv) as V) };
        goals.push(if rng.chance(1, 2) { G::Plusz(o(rng), o(rng), o(rng)) } else { G::Timesz(o(rng), o(rng), o(rng)) });
    }
    for x in 0..nv {
        if rng.chance(2, 3) {
            goals.push(G::Eq(v(x as V), T::Int(rng.range(-2, 3))));
        }
    }
    goals.push(G::Diseq(v(0), T::Int(rng.range(-2, 3))));
    rng.shuffle(&mut goals);
    Program::new((0..nv as V).collect(), goals)
}

fn count_eq_free(g: &G) -> bool {
    // programs for the extension-count lane must not call relations (they unify internally)
    !(g.has_kind("member") || g.has_kind("append") || g.has_kind("reccall") || g.has_kind("match") || g.has_kind("rember"))
}

impl Check for C22 {
    fn id(&self) -> &'static str {
        "C22"
    }
    fn gens(&self) -> Vec<GenSpec> {
        vec![
            GenSpec { name: "tree", quick: 6000, thorough: 450_000 },
            GenSpec { name: "fd", quick: 4000, thorough: 200_000 },
            GenSpec { name: "clpz", quick: 3000, thorough: 150_000 },
            GenSpec { name: "unify", quick: 12_000, thorough: 900_000 },
        ]
    }
    fn rule(&self) -> &'static str {
        "All programs run with the instrumented user type Mon (counts with_constraint / take_constraint, records every process_extension argument, carries probe tags) and a probe after every goal. 'tree': ==/!= programs with subsuming and duplicate disequalities (store normalisation drops) and the bindings that decide them; 'fd': the C16 generator (constraints re-adding themselves on every wake-up, constraints that remove themselves, failing branches); 'clpz': plusz/timesz with bindings. At every probe state and every final state: with - take == number of constraints in the store. For programs without relation calls and without FD labeling: the number of recorded process_extension calls of a final state == the number of `==` goals its branch passed according to the reference (+1 for the query wrapper's own unification), and every recorded extension key is a variable; tag trails equal the reference's. 'unify': sequences of State::unify driven directly: after each successful call exactly one more extension is recorded (also when the unification binds nothing), its keys were unbound in the pre-state, and post-substitution == pre-substitution + extension as sets of bindings. Distinct = distinct program / sequence text; non-trivial = at least one constraint was stored or one extension recorded."
    }
    fn assumptions(&self) -> Vec<String> {
        vec!["a failed unification consumes the state, so hook calls after a failed unification are not observable at the client boundary".into(), "bindings made by FD/CLP(Z) propagation are not unifications and are not expected to reach process_extension".into()]
    }
    fn floor(&self, tier: Tier) -> u64 {
        match tier {
            Tier::Quick => 10_000,
            Tier::Thorough => 600_000,
        }
    }
    fn required_counters(&self) -> Vec<&'static str> {
        vec!["states_checked_conservation", "states_with_nonempty_store", "take_calls_observed", "extension_counts_compared", "unify_calls_checked", "unify_calls_binding_nothing", "tag_trails_compared"]
    }
    fn run_case(&self, gen: &str, seed: u64, index: u64, _tier: Tier) -> CaseOut {
        let mut out = CaseOut::default();
        let mut rng = Rng::for_case(seed, gen, index);
        if gen == "unify" {
            return unify_lane(&mut rng, index);
        }
        let prog = match gen {
            "fd" => fd_program(&mut rng, &FdCfg { max_cons: 5, ..FdCfg::default() }),
            "clpz" => z_program(&mut rng),
            _ => hostile_tree(&mut rng),
        };
        let probed = super::fd::with_probes_deep(&prog);
        let cfg = RunCfg { max_answers: 5000, step_budget: 2_000_000, extra_next: 0, display: false };
        let st = run_states(&probed, &cfg, true);
        out.count("programs", 1);
        if !usable_states(&st, &mut out, &probed, "probed run") {
            return out;
        }
        let mut nontrivial = false;
        let mut check = |state: &St, site: String, out: &mut CaseOut| {
            out.count("states_checked_conservation", 1);
            if state.cstore_ref().iter().count() > 0 {
                out.count("states_with_nonempty_store", 1);
                nontrivial = true;
            }
            out.count("take_calls_observed", state.user_state.take as u64);
            if let Some(msg) = conservation(state) {
                out.violate("M-user", "with_constraint calls minus take_constraint calls differ from the number of stored constraints", format!("{}: {}", site, msg), format!("{}", prog));
            }
            for ext in state.user_state.exts.iter() {
                for (k, _) in ext.iter() {
                    if !k.is_var() {
                        out.violate("M-user", "process_extension received a binding whose key is not a variable", format!("{}: key {:?}", site, k), format!("{}", prog));
                    }
                }
            }
        };
        for rec in st.probes.iter() {
            check(&rec.state, format!("at probe {}", rec.id), &mut out);
        }
        for f in st.finals.iter() {
            check(&f.state, "at final state".to_string(), &mut out);
        }
        // extension counts and tag trails against the reference
        let mut r = Ref::new(&probed);
        match r.run() {
            Ok(rans) => {
                let key = |t: &T| {
                    let mut m = std::collections::BTreeMap::new();
                    t.rename_with(&mut m)
                };
                let mut got_tags: Vec<(T, Vec<u32>)> = st.finals.iter().map(|f| (key(&f.answer.tuple), f.state.user_state.tags.clone())).collect();
                let mut exp_tags: Vec<(T, Vec<u32>)> = rans.iter().map(|a| (key(&a.tuple), a.tags.clone())).collect();
                got_tags.sort();
                exp_tags.sort();
                out.count("tag_trails_compared", 1);
                if got_tags != exp_tags {
                    out.violate("M-user", "user state of an answer does not carry exactly the probe tags of its own branch", format!("got {:?} | expected {:?}", got_tags.iter().take(6).collect::<Vec<_>>(), exp_tags.iter().take(6).collect::<Vec<_>>()), format!("{}", prog));
                }
                // (labeling of FD variables unifies too, so FD programs are left out of this count)
                if gen != "fd" && prog.body.iter().all(count_eq_free) {
                    let mut got: Vec<(T, usize)> = st.finals.iter().map(|f| (key(&f.answer.tuple), f.state.user_state.exts.len())).collect();
                    let mut exp: Vec<(T, usize)> = rans.iter().map(|a| (key(&a.tuple), a.unifs as usize + 1)).collect();
                    got.sort();
                    exp.sort();
                    out.count("extension_counts_compared", 1);
                    if got != exp {
                        out.violate("M-user", "process_extension was not called exactly once per successful unification", format!("(answer, recorded extensions) got {:?} | expected (one per `==` goal passed + 1 for the query wrapper) {:?}", got.iter().take(6).collect::<Vec<_>>(), exp.iter().take(6).collect::<Vec<_>>()), format!("{}", prog));
                    }
                    if exp.iter().any(|(_, n)| *n > 1) {
                        nontrivial = true;
                    }
                }
            }
            Err(e) => out.inconclusive.push(format!("reference: {:?}", e)),
        }
        if nontrivial {
            out.distinct.push(program_key(&prog));
        }
        if index % 997 == 6 {
            let f = st.finals.first();
            out.sample = Some(
                Json::obj()
                    .with("program", Json::s(format!("{}", probed)))
                    .with("first_final_state", Json::s(match f {
                        Some(f) => format!("with={} take={} stored={} extensions={} tags={:?}", f.state.user_state.with, f.state.user_state.take, f.state.cstore_ref().iter().count(), f.state.user_state.exts.len(), f.state.user_state.tags),
                        None => "no answers".to_string(),
                    })),
            );
        }
        let mut seen = BTreeSet::new();
        out.violations.retain(|v| seen.insert(v.signature.clone()));
        out
    }
}

fn rand_term(rng: &mut Rng, depth: usize) -> T {
    let r = rng.below(100);
    if depth == 0 || r < 45 {
        return match rng.below(8) {
            0..=4 => T::Var(rng.below(4) as V),
            5 => T::Nil,
            _ => T::Int(rng.range(1, 2)),
        };
    }
    match rng.below(4) {
        0 => T::list((0..rng.below(3)).map(|_| rand_term(rng, depth - 1)).collect()),
        1 => T::improper(vec![rand_term(rng, depth - 1)], T::Var(rng.below(4) as V)),
        2 => T::pair(rand_term(rng, depth - 1), rand_term(rng, depth - 1)),
        _ => T::Comp("Some", vec![rand_term(rng, depth - 1)]),
    }
}

fn unify_lane(rng: &mut Rng, index: u64) -> CaseOut {
    let mut out = CaseOut::default();
    let mut env = Env::new();
    let mut names: HashMap<L, V> = HashMap::new();
    for x in 0..4 {
        let l = env.declare(x);
        names.insert(l, x);
    }
    let mut state = St::new(Mon::default());
    let n = 2 + rng.below(5);
    let mut text = vec![];
    for i in 0..n {
        // repeat an earlier pair now and then: a successful unification that binds nothing
        let (a, b) = if i > 0 && rng.chance(1, 4) {
            let t = rand_term(rng, 1);
            (t.clone(), t)
        } else {
            (rand_term(rng, 2), rand_term(rng, 2))
        };
        text.push(format!("{} == {}", a, b));
        let la = to_lterm(&env, &a);
        let lb = to_lterm(&env, &b);
        let pre = state.clone();
        let pre_exts = pre.user_state.exts.len();
        match state.unify(&la, &lb) {
            Ok(post) => {
                out.count("unify_calls_checked", 1);
                let render = text.join(", ");
                if post.user_state.exts.len() != pre_exts + 1 {
                    out.violate("M-user", "process_extension was not called exactly once after a successful unification", format!("step {}: {} extension(s) recorded by this unification (sequence: {})", i, post.user_state.exts.len() as i64 - pre_exts as i64, render), render.clone());
                    return out;
                }
                let ext = post.user_state.exts.last().unwrap().clone();
                if ext.is_empty() {
                    out.count("unify_calls_binding_nothing", 1);
                }
                let mut pre_set: BTreeSet<String> = pre.smap_ref().iter().map(|(k, v)| format!("{:?}=>{:?}", k, v)).collect();
                for (k, val) in ext.iter() {
                    if !k.is_var() || !pre.smap_ref().walk(k).is_var() || pre.smap_ref().walk(k) != k {
                        out.violate("M-user", "process_extension received a binding for a variable that was already bound", format!("step {}: key {:?} (sequence: {})", i, k, render), render.clone());
                    }
                    pre_set.insert(format!("{:?}=>{:?}", k, val));
                }
                let post_set: BTreeSet<String> = post.smap_ref().iter().map(|(k, v)| format!("{:?}=>{:?}", k, v)).collect();
                if pre_set != post_set {
                    let d: Vec<&String> = pre_set.symmetric_difference(&post_set).take(4).collect();
                    out.violate("M-user", "the extension passed to process_extension is not exactly the new bindings of the unification", format!("step {}: pre + extension differs from post in {:?} (sequence: {})", i, d, render), render.clone());
                }
                state = post;
            }
            Err(()) => break,
        }
    }
    out.distinct.push(crate::util::fnv(&text.join(", ")));
    if index % 1999 == 0 {
        out.sample = Some(Json::obj().with("unify_sequence", Json::s(text.join(", "))));
    }
    let mut seen = BTreeSet::new();
    out.violations.retain(|v| seen.insert(v.signature.clone()));
    out
}
