//! Shared machinery of the CLP(FD) checks C16 (soundness) and C17 (completeness, exactly once).
use super::common::*;
use crate::ast::*;
use crate::canon::*;
use crate::framework::*;
use crate::gen::*;
use crate::refsem::RefErr;
use crate::run::*;
use crate::term::{T, V};
use crate::util::Rng;
use std::collections::{BTreeMap, BTreeSet};

#[derive(Clone, Copy, PartialEq, Eq)]
pub enum Mode {
    Sound,
    Complete,
}

fn v(i: V) -> T {
    T::Var(i)
}

pub const FIXED: [&str; 14] = [
    "plus-aliased", "lt-aliased", "times-aliased", "times-negative", "times-zero-divisor", "distinct-after-bind", "distinct-same-var", "distinct-const-dup", "domain-after-constraint", "eq-var-var",
    "minus-mixed", "sparse-unsorted-dup", "hidden-vars", "bind-non-number",
];

pub fn fixed_program(i: usize) -> Program {
    let r = |x: T, lo: i64, hi: i64| G::InFdRange(x, lo, hi);
    match i {
        0 => Program::new(vec![0], vec![r(v(0), 1, 3), G::Plusfd(v(0), v(0), v(0))]),
        1 => Program::new(vec![0], vec![r(v(0), 1, 3), G::Ltfd(v(0), v(0))]),
        2 => Program::new(vec![0, 1], vec![r(T::list(vec![v(0), v(1)]), -2, 2), G::Timesfd(v(0), v(1), v(0))]),
        3 => Program::new(vec![0, 1], vec![r(T::list(vec![v(0), v(1)]), -2, 2), G::Timesfd(v(0), v(1), T::Int(-2))]),
        4 => Program::new(vec![0, 1, 2], vec![r(T::list(vec![v(0), v(1), v(2)]), -1, 2), G::Timesfd(v(0), v(1), v(2))]),
        5 => Program::new(vec![0, 1], vec![G::Eq(v(0), T::Int(1)), G::Eq(v(1), T::Int(1)), G::Distinctfd(T::list(vec![v(0), v(1)]))]),
        6 => Program::new(vec![0, 1], vec![r(T::list(vec![v(0), v(1)]), 0, 2), G::Distinctfd(T::list(vec![v(0), v(1), v(0)]))]),
        7 => Program::new(vec![0], vec![r(v(0), 0, 2), G::Distinctfd(T::list(vec![T::Int(1), v(0), T::Int(1)]))]),
        8 => Program::new(vec![0, 1], vec![G::Plusfd(v(0), v(1), T::Int(3)), G::Ltfd(v(0), v(1)), r(v(0), 0, 3), r(v(1), 0, 3)]),
        9 => Program::new(vec![0, 1], vec![r(v(0), 0, 3), G::InFd(v(1), vec![1, 3, 5]), G::Eq(v(0), v(1))]),
        10 => Program::new(vec![0, 1, 2], vec![r(T::list(vec![v(0), v(1), v(2)]), -2, 2), G::Minusfd(v(0), v(1), v(2)), G::Ltfd(v(2), v(0))]),
        11 => Program::new(vec![0, 1], vec![G::InFd(v(0), vec![3, -1, 3, 0, -1]), G::InFd(v(1), vec![2, 2]), G::Ltefd(v(0), v(1))]),
        12 => Program::new(vec![0], vec![G::Fresh(vec![1, 2], vec![r(T::list(vec![v(0), v(1), v(2)]), 0, 2), G::Plusfd(v(1), v(2), v(0)), G::Diseqfd(v(1), v(2))])]),
        _ => Program::new(vec![0, 1], vec![r(v(0), 0, 2), G::Conde(vec![vec![G::Eq(v(0), T::s("s"))], vec![G::Eq(v(0), T::list(vec![T::Int(1)]))], vec![G::Eq(v(0), T::Int(2)), G::Eq(v(1), T::Int(0))]])]),
    }
}

/// Direct arithmetic truth of a flat FD conjunction under a total integer assignment
/// (None when the program is not a flat conjunction of FD goals and integer equalities).
pub fn eval_flat(body: &[G], a: &BTreeMap<V, i64>) -> Option<bool> {
    let val = |t: &T| -> Option<i64> {
        match t {
            T::Int(i) => Some(*i),
            T::Var(x) => a.get(x).copied(),
            _ => None,
        }
    };
    let mut all = true;
    for g in body {
        let ok = match g {
            G::InFd(x, d) => match x {
                T::Var(_) | T::Int(_) => d.contains(&val(x)?),
                T::Cons(..) | T::Nil => {
                    let (items, _) = x.unroll();
                    let mut r = true;
                    for it in items {
                        r &= d.contains(&val(it)?);
                    }
                    r
                }
                _ => return None,
            },
            G::InFdRange(x, lo, hi) => {
                let d: Vec<i64> = (*lo..=*hi).collect();
                return_if_none(eval_flat(&[G::InFd(x.clone(), d)], a))?
            }
            G::Ltefd(x, y) => val(x)? <= val(y)?,
            G::Ltfd(x, y) => val(x)? < val(y)?,
            G::Plusfd(x, y, z) => val(x)? + val(y)? == val(z)?,
            G::Minusfd(x, y, z) => val(x)? - val(y)? == val(z)?,
            G::Timesfd(x, y, z) => val(x)? * val(y)? == val(z)?,
            G::Diseqfd(x, y) => val(x)? != val(y)?,
            G::Eq(x, y) => val(x)? == val(y)?,
            G::Distinctfd(l) => {
                let (items, _) = l.unroll();
                let mut vs = vec![];
                for it in items {
                    vs.push(val(it)?);
                }
                let s: BTreeSet<i64> = vs.iter().copied().collect();
                s.len() == vs.len()
            }
            G::Conde(cs) => {
                let mut any = false;
                for c in cs {
                    any |= eval_flat(c, a)?;
                }
                any
            }
            _ => return None,
        };
        all &= ok;
    }
    Some(all)
}

fn return_if_none(x: Option<bool>) -> Option<bool> {
    x
}

pub struct FdObs {
    pub prog: Program,
    pub expected: Vec<Ans>,
    pub runs: Vec<SeedRun>,
    pub states: SeedStates,
}

pub fn gen_program(gen: &str, rng: &mut Rng, index: u64, tier: Tier) -> Program {
    match gen {
        "fixed" => fixed_program(index as usize),
        "structured" => {
            let cfg = FdCfg { structured_query: true, max_cons: 4, ..FdCfg::default() };
            fd_program(rng, &cfg)
        }
        "aliased" => {
            // few variables, many constraints: operand aliasing is the norm
            let cfg = FdCfg { max_vars: 2, max_cons: if tier == Tier::Thorough { 6 } else { 5 }, ..FdCfg::default() };
            fd_program(rng, &cfg)
        }
        _ => {
            let cfg = FdCfg { max_cons: if tier == Tier::Thorough { 7 } else { 6 }, ..FdCfg::default() };
            fd_program(rng, &cfg)
        }
    }
}

pub fn gens() -> Vec<GenSpec> {
    vec![
        GenSpec { name: "random", quick: 2500, thorough: 120_000 },
        GenSpec { name: "aliased", quick: 1500, thorough: 60_000 },
        GenSpec { name: "structured", quick: 800, thorough: 40_000 },
        GenSpec { name: "fixed", quick: FIXED.len() as u64, thorough: FIXED.len() as u64 },
    ]
}

pub const GEN_RULE: &str = "'random': 1-4 FD variables (1..n of them query variables, the rest hidden under fresh), interval or sparse domains over a window lo..=hi with lo in -3..=0 and hi in 1..=4 (sparse ones also as unsorted vectors with duplicates, several variables also through one infdrange over a list), 1-6 constraints drawn from ltefd, ltfd, plusfd, minusfd, timesfd (double weight), diseqfd, ==, distinctfd (lists of 2-5 operands), every operand a variable (any, so aliasing is arbitrary) or with probability 1/5 a constant, domains inserted at random positions (before or after the constraints that use them), occasionally a conde of bindings in the middle; 'aliased': the same with at most 2 variables; 'structured': the query variable is bound to a list, Pair, [Some([..])] or improper list holding the visible FD variables; 'fixed': 14 hand-written programs (operand aliasing, negative and zero-containing timesfd, distinctfd after its bindings / with the same variable twice / duplicate constants, domains after constraints, var-var ==, unsorted duplicated sparse vectors, hidden variables, FD variable bound to a non-number).";

/// Observe one program: expected answers by brute force, `seeds` query runs on fresh threads,
/// one probed state-level run.
pub fn observe(prog: &Program, seeds: usize, out: &mut CaseOut) -> Option<FdObs> {
    let expected = match ref_answers(prog, false) {
        Ok(a) => a,
        Err(RefErr::Unsupported(w)) => {
            out.count("skipped_unsupported", 1);
            out.inconclusive.push(format!("reference: unsupported {}", w));
            return None;
        }
        Err(e) => {
            out.inconclusive.push(format!("reference: {:?}", e));
            return None;
        }
    };
    let cfg = RunCfg { max_answers: 5000, step_budget: 3_000_000, extra_next: 2, display: true };
    let runs = run_query_seeds(prog, &cfg, seeds);
    let probed = with_probes_deep(prog);
    let states = run_states_seed(&probed, &cfg, true, state_invariants);
    out.count("programs", 1);
    out.count("runs", runs.len() as u64);
    Some(FdObs { prog: prog.clone(), expected, runs, states })
}

/// Insert probes after every goal of the top-level body, or of the body of a single top-level
/// fresh (the shape the FD generators produce).
pub fn with_probes_deep(p: &Program) -> Program {
    if p.body.len() == 1 {
        if let G::Fresh(vs, gs) = &p.body[0] {
            let mut body = vec![];
            for (i, g) in gs.iter().enumerate() {
                body.push(g.clone());
                body.push(G::Probe(i as u32));
            }
            return Program { rels: p.rels.clone(), qvars: p.qvars.clone(), body: vec![G::Fresh(vs.clone(), body)] };
        }
    }
    with_probes(p)
}

pub fn judge(obs: &FdObs, mode: Mode, out: &mut CaseOut) {
    let prog = &obs.prog;
    let ptxt = format!("{}", prog);
    let exp_tuples = tuple_multiset(&obs.expected);
    let exp_set: BTreeSet<T> = exp_tuples.iter().cloned().collect();
    if exp_set.len() != exp_tuples.len() {
        out.inconclusive.push("reference produced duplicate projections".into());
        return;
    }
    let mut distinct_results: BTreeSet<Vec<T>> = BTreeSet::new();
    for (k, run) in obs.runs.iter().enumerate() {
        if let Some(p) = &run.panic {
            // reported by both modes: a panic is neither sound nor complete behaviour
            out.violate("M-panic", &format!("panic {} at {}", p.message, p.location), format!("run {}: panic '{}' at {}", k, p.message, p.location), ptxt.clone());
            continue;
        }
        if run.budget_exceeded {
            out.inconclusive.push("step budget exceeded".into());
            continue;
        }
        if run.fused_violation {
            out.violate("M-ans", "iterator returned Some after None", format!("run {}", k), ptxt.clone());
        }
        out.count("answers", run.answers.len() as u64);
        let got = tuple_multiset(&run.answers);
        distinct_results.insert(got.clone());
        match mode {
            Mode::Sound => {
                for (i, a) in run.answers.iter().enumerate() {
                    let t = {
                        let mut m = BTreeMap::new();
                        a.tuple.rename_with(&mut m)
                    };
                    out.count("answers_checked_sound", 1);
                    if !exp_set.contains(&t) {
                        out.violate(
                            "M-ref",
                            "FD answer is not a solution of the posted constraints",
                            format!("run {} answer #{} = {} is not among the brute-force solutions {} (all answers of this run: {})", k, i, a, show_terms(&exp_tuples), show_answers(&run.answers)),
                            ptxt.clone(),
                        );
                        break;
                    }
                }
                // direct arithmetic, independent of the reference, when every variable is visible
                let flat = prog.body.iter().all(|g| !matches!(g, G::Fresh(..)));
                if flat {
                    for a in run.answers.iter() {
                        let (items, _) = a.tuple.unroll();
                        let mut m = BTreeMap::new();
                        let mut ground = true;
                        for (qv, it) in prog.qvars.iter().zip(items.iter()) {
                            match it {
                                T::Int(i) => {
                                    m.insert(*qv, *i);
                                }
                                _ => ground = false,
                            }
                        }
                        if !ground {
                            continue;
                        }
                        if let Some(ok) = eval_flat(&prog.body, &m) {
                            out.count("answers_checked_arithmetically", 1);
                            if !ok {
                                out.violate("M-arith", "FD answer violates a posted constraint (direct arithmetic)", format!("run {}: answer {} does not satisfy the program", k, a), ptxt.clone());
                                break;
                            }
                        }
                    }
                }
            }
            Mode::Complete => {
                out.count("answer_sets_compared", 1);
                if got != exp_tuples {
                    let gs: BTreeSet<T> = got.iter().cloned().collect();
                    let missing: Vec<String> = exp_set.difference(&gs).take(4).map(|t| format!("{}", t)).collect();
                    let dup = gs.len() != got.len();
                    let extra: Vec<String> = gs.difference(&exp_set).take(4).map(|t| format!("{}", t)).collect();
                    if !missing.is_empty() {
                        out.violate("M-ref", "FD labeling misses solutions", format!("run {}: missing {:?}; got {} expected {}", k, missing, show_terms(&got), show_terms(&exp_tuples)), ptxt.clone());
                    } else if dup {
                        out.violate("M-ref", "FD labeling returns a solution more than once", format!("run {}: got {} expected {}", k, show_terms(&got), show_terms(&exp_tuples)), ptxt.clone());
                    } else if !extra.is_empty() {
                        // extra (unsound) answers are C16's business; note them without a C17 verdict
                        out.count("runs_with_unsound_answers_seen", 1);
                    }
                }
            }
        }
    }
    if distinct_results.len() > 1 {
        out.count("programs_with_seed_dependent_answer_sets", 1);
    }
    // state-level run
    if let Some(p) = &obs.states.panic {
        out.violate("M-panic", &format!("panic {} at {}", p.message, p.location), format!("probed run: panic '{}' at {}", p.message, p.location), ptxt.clone());
    } else if !obs.states.budget_exceeded {
        out.count("probe_states_checked", obs.states.probe_states);
        out.count("final_states_checked", obs.states.final_states);
        if mode == Mode::Sound {
            let mut seen = BTreeSet::new();
            for (sig, msg) in obs.states.invariant_violations.iter() {
                if seen.insert(sig.clone()) {
                    out.violate("M-state", sig, msg.clone(), ptxt.clone());
                }
            }
        }
    }
    let kinds = prog.goal_kinds();
    let nfd = kinds.iter().filter(|k| ["ltefd", "ltfd", "plusfd", "minusfd", "timesfd", "diseqfd", "distinctfd"].contains(k)).count();
    if nfd >= 1 && !obs.expected.is_empty() {
        out.distinct.push(program_key(prog));
        out.count("programs_with_solutions", 1);
    } else if nfd >= 1 {
        out.distinct.push(program_key(prog));
        out.count("programs_unsatisfiable", 1);
    }
}
