//! C23 — solving well-formed programs never panics.
use super::common::*;
use crate::ast::*;
use crate::framework::*;
use crate::gen::*;
use crate::run::*;
use crate::term::{T, V};
use crate::util::Rng;
use std::collections::BTreeSet;

pub struct C23;

fn v(i: V) -> T {
    T::Var(i)
}

/// Tree disequalities and equalities mixed with (also one-value) finite domains, in any order.
fn diseq_fd_program(rng: &mut Rng) -> Program {
    let nv = 1 + rng.below(3);
    let mut body = vec![];
    for x in 0..nv as V {
        let lo = rng.range(0, 3);
        let hi = lo + if rng.chance(1, 3) { 0 } else { rng.range(0, 2) };
        body.push(if rng.chance(1, 2) { G::InFdRange(v(x), lo, hi) } else { G::InFd(v(x), (lo..=hi).collect()) });
    }
    let k = 1 + rng.below(4);
    for _ in 0..k {
        let x = v(rng.below(nv) as V);
        let y = if rng.chance(1, 2) { v(rng.below(nv) as V) } else { T::Int(rng.range(0, 4)) };
        body.push(match rng.below(7) {
            0 | 1 => G::Diseq(x, y),
            2 => G::Diseq(T::list(vec![x, y.clone()]), T::list(vec![T::Int(rng.range(0, 3)), y])),
            3 => G::Diseqfd(x, y),
            4 => G::Ltefd(x, y),
            5 => G::Eq(x, y),
            _ => G::Conde(vec![vec![G::Diseq(x.clone(), y.clone())], vec![G::Eq(x, y)]]),
        });
    }
    rng.shuffle(&mut body);
    Program::new((0..nv as V).collect(), body)
}

const LANES: [&str; 9] = ["tree", "tree-compound", "search", "fd", "fd-structured", "clpz", "diseq-fd", "for-project", "commit"];

impl Check for C23 {
    fn id(&self) -> &'static str {
        "C23"
    }
    fn gens(&self) -> Vec<GenSpec> {
        vec![GenSpec { name: "mixed", quick: 27_000, thorough: 900_000 }]
    }
    fn rule(&self) -> &'static str {
        "A mixed workload drawing round-robin from the generators of this framework, all of which emit only well-formed programs in C23's sense (operands of the documented kinds, every FD operand given a domain somewhere in its conjunction, tiny integers): pure tree programs, tree programs with compound terms and wildcards, search programs (nested disjunctions, member/append/rember, recursive closures, match), FD programs (aliasing, signed and one-value domains, several domains on one variable incl. interleaving sparse sets with an empty meet, distinctfd), FD programs with structured query variables, CLP(Z), tree disequalities mixed with FD domains in any order, for/project programs, committed-choice programs. Every program is built, solved to exhaustion (or 300 answers / a step budget) through the public query iterator and every answer is formatted with Display; any panic other than the harness's own step-budget signal is a violation (message and file:line recorded). The other 23 checks report panics of their own workloads under their own property as well. Distinct = distinct program text; non-trivial = every program."
    }
    fn assumptions(&self) -> Vec<String> {
        vec!["well-formedness is enforced by construction of the generators".into()]
    }
    fn floor(&self, tier: Tier) -> u64 {
        match tier {
            Tier::Quick => 15_000,
            Tier::Thorough => 400_000,
        }
    }
    fn required_counters(&self) -> Vec<&'static str> {
        vec!["lane_tree", "lane_tree-compound", "lane_search", "lane_fd", "lane_fd-structured", "lane_clpz", "lane_diseq-fd", "lane_for-project", "lane_commit", "answers_formatted"]
    }
    fn miri_lane(&self, tier: Tier) -> Option<(Vec<(&'static str, u64, u64)>, bool)> {
        // thorough only: the same run_case code interpreted by Miri (Rc::make_mut / copy-on-write paths)
        if tier == Tier::Thorough {
            Some((vec![("mixed", 0, 36)], false))
        } else {
            None
        }
    }
    fn run_case(&self, gen: &str, seed: u64, index: u64, _tier: Tier) -> CaseOut {
        let mut out = CaseOut::default();
        let mut rng = Rng::for_case(seed, gen, index);
        let lane = LANES[(index as usize) % LANES.len()];
        let prog = match lane {
            "tree" => TreeGen::new(&mut rng, TreeCfg { max_conde_clauses: 5, ..TreeCfg::default() }).program(),
            "tree-compound" => TreeGen::new(&mut rng, TreeCfg { compounds: true, any: true, depth: 3, ..TreeCfg::default() }).program(),
            "search" => SearchGen::new(&mut rng, SearchCfg::default()).program(),
            "fd" => fd_program(&mut rng, &FdCfg::default()),
            "fd-structured" => fd_program(&mut rng, &FdCfg { structured_query: true, ..FdCfg::default() }),
            "clpz" => {
                let mut goals = vec![];
                for _ in 0..1 + rng.below(3) {
                    let o = |rng: &mut Rng| if rng.chance(1, 3) { T::Int(rng.range(-3, 3)) } else { v(rng.below(3) as V) };
                    goals.push(if rng.chance(1, 2) { G::Plusz(o(&mut rng), o(&mut rng), o(&mut rng)) } else { G::Timesz(o(&mut rng), o(&mut rng), o(&mut rng)) });
                }
                for x in 0..3 {
                    if rng.chance(1, 2) {
                        goals.push(G::Eq(v(x), T::Int(rng.range(-3, 3))));
                    }
                }
                rng.shuffle(&mut goals);
                Program::new(vec![0, 1, 2], goals)
            }
            "diseq-fd" => diseq_fd_program(&mut rng),
            "for-project" => {
                let coll: Vec<T> = (0..rng.below(4)).map(|_| if rng.chance(1, 2) { v(1) } else { T::Int(rng.range(1, 3)) }).collect();
                let body = vec![G::Call(Rel::Member, vec![v(1), T::list(vec![T::Int(1), T::Int(2)])]), G::For(9, if rng.chance(1, 2) { CollKind::Vec } else { CollKind::List }, coll, vec![vec![G::Diseq(v(9), T::Int(rng.range(1, 3)))]]), G::Project(vec![1], vec![G::Eq(v(0), T::list(vec![v(1), v(1)]))])];
                Program::new(vec![0, 1], body)
            }
            _ => {
                let mk = |rng: &mut Rng| -> Vec<G> { vec![if rng.chance(1, 2) { G::Eq(v(0), T::Int(rng.range(1, 3))) } else { G::Call(Rel::Member, vec![v(0), T::list(vec![T::Int(1), T::Int(2)])]) }, G::Eq(v(1), T::Int(rng.range(1, 3)))] };
                let cs: Vec<Vec<G>> = (0..1 + rng.below(3)).map(|_| mk(&mut rng)).collect();
                Program::new(vec![0, 1], vec![G::Eq(v(1), T::Int(rng.range(1, 3))), match rng.below(3) { 0 => G::Conda(cs), 1 => G::Condu(cs), _ => G::Onceo(cs) }])
            }
        };
        let cfg = RunCfg { max_answers: 300, step_budget: 300_000, extra_next: 2, display: true };
        let real = run_query(&prog, &cfg);
        out.count("programs", 1);
        out.count(&format!("lane_{}", lane), 1);
        if let Some(p) = &real.panic {
            out.violate("M-panic", &format!("panic {} at {}", p.message.chars().take(120).collect::<String>(), p.location), format!("lane {}: panic '{}' at {}", lane, p.message.chars().take(300).collect::<String>(), p.location), format!("{}", prog));
            return out;
        }
        if real.budget_exceeded {
            out.count("budget_exceeded_not_a_verdict", 1);
        }
        if real.fused_violation {
            out.violate("M-ans", "iterator returned Some after None", String::new(), format!("{}", prog));
        }
        out.count("answers_formatted", real.raw.iter().filter(|r| !r.display.is_empty()).count() as u64);
        out.distinct.push(program_key(&prog));
        if index % 1999 == 5 {
            out.sample = Some(sample_json(&prog, &real.answers, &format!("lane {}; Display of first answer: {}", lane, real.raw.first().map(|r| r.display.clone()).unwrap_or_default())));
        }
        let mut seen = BTreeSet::new();
        out.violations.retain(|v| seen.insert(v.signature.clone()));
        out
    }
}
