//! C01 — unification computes a most general unifier, with occurs check.
use super::common::*;
use crate::ast::*;
use crate::build::*;
use crate::canon::*;
use crate::framework::*;
use crate::run::*;
use crate::term::{variants, Subst, T, V};
use crate::util::Rng;
use std::collections::{BTreeSet, HashMap};

pub struct C01;

const NV: V = 4;

fn leaves() -> Vec<T> {
    vec![T::Int(1), T::Int(2), T::Var(0), T::Var(1), T::Nil]
}

/// All terms of depth <= 1 over the small leaf alphabet (enumerated lane).
fn small_terms() -> Vec<T> {
    let l = leaves();
    let mut out = l.clone();
    for a in l.iter() {
        out.push(T::list(vec![a.clone()]));
        out.push(T::Comp("Some", vec![a.clone()]));
        for b in l.iter() {
            out.push(T::list(vec![a.clone(), b.clone()]));
            if *b != T::Nil {
                out.push(T::improper(vec![a.clone()], b.clone()));
            }
            out.push(T::pair(a.clone(), b.clone()));
            out.push(T::Comp("Named", vec![a.clone(), b.clone()]));
            out.push(T::Comp("", vec![a.clone(), b.clone()]));
        }
    }
    // a few arity-3 shapes
    for a in [T::Var(0), T::Int(1)].iter() {
        for b in [T::Var(1), T::Int(2)].iter() {
            for c in [T::Var(0), T::Var(1), T::Nil].iter() {
                out.push(T::Comp("Triple", vec![a.clone(), b.clone(), c.clone()]));
                out.push(T::list(vec![a.clone(), b.clone(), c.clone()]));
                if *c != T::Nil {
                    out.push(T::improper(vec![a.clone(), b.clone()], c.clone()));
                }
            }
        }
    }
    let mut seen = BTreeSet::new();
    out.retain(|t| seen.insert(t.clone()));
    out
}

/// Prior bindings used in the enumerated lane (each is one earlier unification).
fn priors() -> Vec<Option<(T, T)>> {
    vec![
        None,
        Some((T::Var(0), T::Var(1))),
        Some((T::Var(1), T::Var(0))),
        Some((T::Var(0), T::Int(1))),
        Some((T::Var(1), T::list(vec![T::Var(0)]))),
        Some((T::Var(0), T::pair(T::Var(1), T::Int(1)))),
        Some((T::Var(0), T::Var(2))),
        Some((T::Var(2), T::Var(1))),
        Some((T::Var(1), T::Comp("Some", vec![T::Var(2)]))),
        Some((T::improper(vec![T::Int(1)], T::Var(0)), T::Var(1))),
    ]
}

fn rand_term(rng: &mut Rng, depth: usize) -> T {
    let atoms = [T::Int(1), T::Int(2), T::Char('a'), T::s("s"), T::Bool(true)];
    let r = rng.below(100);
    if depth == 0 || r < 35 {
        return match rng.below(10) {
            0..=5 => T::Var(rng.below(NV as usize) as V),
            6 => T::Nil,
            _ => atoms[if rng.chance(3, 4) { rng.below(2) } else { rng.below(atoms.len()) }].clone(),
        };
    }
    let sub = |rng: &mut Rng| rand_term(rng, depth - 1);
    match rng.below(9) {
        0 | 1 => {
            let n = rng.below(3);
            T::list((0..n).map(|_| sub(rng)).collect())
        }
        2 | 3 => {
            let n = 1 + rng.below(2);
            let items: Vec<T> = (0..n).map(|_| sub(rng)).collect();
            let tail = if rng.chance(3, 4) { T::Var(rng.below(NV as usize) as V) } else { sub(rng) };
            T::improper(items, tail)
        }
        4 => T::pair(sub(rng), sub(rng)),
        5 => T::Comp("Triple", vec![sub(rng), sub(rng), sub(rng)]),
        6 => T::Comp("Named", vec![sub(rng), sub(rng)]),
        7 => T::Comp("", vec![sub(rng), sub(rng)]),
        _ => T::Comp("Some", vec![sub(rng)]),
    }
}

/// Hostile sequences: aliases first, then a binding that closes a cycle through a list or a
/// compound, with the variable on either side.
fn hostile_seq(rng: &mut Rng) -> Vec<(T, T)> {
    let mut seq = vec![];
    let mut vars: Vec<V> = (0..NV).collect();
    rng.shuffle(&mut vars);
    let (a, b, c) = (T::Var(vars[0]), T::Var(vars[1]), T::Var(vars[2]));
    // alias chain
    match rng.below(4) {
        0 => seq.push((a.clone(), b.clone())),
        1 => seq.push((b.clone(), a.clone())),
        2 => {
            seq.push((a.clone(), b.clone()));
            seq.push((b.clone(), c.clone()));
        }
        _ => {}
    }
    let inner = match rng.below(3) {
        0 => a.clone(),
        1 => b.clone(),
        _ => c.clone(),
    };
    let wrap = |rng: &mut Rng, t: T| -> T {
        match rng.below(7) {
            0 => T::list(vec![t]),
            1 => T::improper(vec![T::Int(1)], t),
            2 => T::pair(t, T::Int(1)),
            3 => T::Comp("Named", vec![T::Int(1), t]),
            4 => T::Comp("Some", vec![t]),
            5 => T::Comp("", vec![t, T::Int(2)]),
            _ => T::Comp("Triple", vec![T::Int(1), T::list(vec![t]), T::Int(2)]),
        }
    };
    let mut big = wrap(rng, inner);
    if rng.chance(1, 2) {
        big = wrap(rng, big);
    }
    if rng.chance(1, 3) {
        // go through an intermediate variable bound to the structure
        let d = T::Var(vars[3]);
        if rng.chance(1, 2) {
            seq.push((d.clone(), big));
        } else {
            seq.push((big, d.clone()));
        }
        big = if rng.chance(1, 2) { d } else { wrap(rng, d) };
    }
    let target = match rng.below(3) {
        0 => a,
        1 => b,
        _ => c,
    };
    if rng.chance(1, 2) {
        seq.push((target, big));
    } else {
        seq.push((big, target));
    }
    if rng.chance(1, 3) {
        seq.push((rand_term(rng, 1), rand_term(rng, 1)));
    }
    seq
}

struct Lock {
    state: Option<St>,
    rs: Subst,
    env: Env,
    names: HashMap<L, V>,
}

impl Lock {
    fn new() -> Lock {
        let mut env = Env::new();
        let mut names = HashMap::new();
        for v in 0..NV {
            let l = env.declare(v);
            names.insert(l, v);
        }
        Lock { state: Some(St::new(Mon::default())), rs: Subst::new(), env, names }
    }
}

/// Run one sequence in lock-step on a real `State` and the reference substitution.
/// Returns (violations, steps run, successes, failures).
fn lockstep(seq: &[(T, T)], out: &mut CaseOut, label: &str) -> bool {
    let mut lk = Lock::new();
    let render = || seq.iter().map(|(a, b)| format!("{} == {}", a, b)).collect::<Vec<_>>().join(", ");
    for (i, (a, b)) in seq.iter().enumerate() {
        let state = match lk.state.take() {
            Some(s) => s,
            None => break,
        };
        let la = to_lterm(&lk.env, a);
        let lb = to_lterm(&lk.env, b);
        let mut rs2 = lk.rs.clone();
        let mut ext = vec![];
        let rok = rs2.unify(a, b, &mut ext);
        let real = state.unify(&la, &lb);
        out.count("unifications", 1);
        match (real, rok) {
            (Ok(st), true) => {
                out.count("unify_success", 1);
                // acyclicity and the other state invariants with the harness's own bounded walker
                let inv = state_invariants(&st);
                if !inv.is_empty() {
                    for (sig, msg) in inv {
                        out.violate("M-state", &sig, format!("{} after step {} of [{}]: {}", label, i, render(), msg), render());
                    }
                    return false;
                }
                lk.rs = rs2;
                let smap = st.smap_ref();
                let mut next: V = 1000;
                let wa = from_lterm(&smap.walk_star(&la), &mut lk.names, &mut next);
                let wb = from_lterm(&smap.walk_star(&lb), &mut lk.names, &mut next);
                if wa != wb {
                    out.violate("M-ref", "after a successful unification the two sides do not walk to the same term", format!("{} step {} of [{}]: {} vs {}", label, i, render(), wa, wb), render());
                    return false;
                }
                // MGU: tuple of all variables, real vs reference, must be variants
                let real_tuple = T::list((0..NV).map(|v| from_lterm(&smap.walk_star(&lk.env.get(v)), &mut lk.names, &mut next)).collect());
                let ref_tuple = T::list((0..NV).map(|v| lk.rs.walk_star(&T::Var(v))).collect());
                out.count("mgu_compared", 1);
                if !variants(&real_tuple, &ref_tuple) {
                    out.violate("M-ref", "resulting substitution is not a variant of the reference most general unifier", format!("{} step {} of [{}]: real {} vs reference {}", label, i, render(), real_tuple, ref_tuple), render());
                    return false;
                }
                if ext.iter().any(|(_, t)| !t.is_atom() && !t.is_var()) {
                    out.count("bindings_to_structures", 1);
                }
                lk.state = Some(st);
            }
            (Err(()), false) => {
                out.count("unify_failure_agreed", 1);
                // was it the occurs check? (reference without occurs check would have succeeded)
                if would_unify_without_occurs(&lk.rs, a, b) {
                    out.count("occurs_check_refusals", 1);
                }
                break;
            }
            (Ok(st), false) => {
                let cyc = would_unify_without_occurs(&lk.rs, a, b);
                let inv = state_invariants(&st);
                let extra = if cyc { " (a finite unifier does not exist: the binding is cyclic)" } else { "" };
                out.violate(
                    "M-ref",
                    if cyc { "unification accepted a cyclic binding (occurs check)" } else { "unification succeeded where no unifier exists" },
                    format!("{} step {} of [{}]: real engine succeeded, reference fails{}; state invariants: {:?}", label, i, render(), extra, inv),
                    render(),
                );
                return false;
            }
            (Err(()), true) => {
                out.violate("M-ref", "unification failed where a unifier exists", format!("{} step {} of [{}]: real engine failed, reference unifies with {:?}", label, i, render(), ext), render());
                return false;
            }
        }
    }
    true
}

/// Unification without occurs check, bounded (used only to classify failures).
fn would_unify_without_occurs(s: &Subst, a: &T, b: &T) -> bool {
    fn go(s: &mut Subst, a: &T, b: &T, fuel: &mut i32) -> bool {
        if *fuel <= 0 {
            return true;
        }
        *fuel -= 1;
        let a = s.walk(a).clone();
        let b = s.walk(b).clone();
        match (&a, &b) {
            (T::Var(x), T::Var(y)) if x == y => true,
            (T::Var(x), _) => {
                s.map.insert(*x, b.clone());
                true
            }
            (_, T::Var(y)) => {
                s.map.insert(*y, a.clone());
                true
            }
            (T::Nil, T::Nil) => true,
            (T::Cons(h1, t1), T::Cons(h2, t2)) => go(s, h1, h2, fuel) && go(s, t1, t2, fuel),
            (T::Comp(n1, f1), T::Comp(n2, f2)) => n1 == n2 && f1.len() == f2.len() && f1.iter().zip(f2.iter()).all(|(x, y)| go(s, x, y, fuel)),
            (x, y) if x.is_atom() && y.is_atom() => x == y,
            _ => false,
        }
    }
    let mut s2 = s.clone();
    let mut fuel = 200;
    go(&mut s2, a, b, &mut fuel)
}

fn seq_program(seq: &[(T, T)], hide: bool) -> Program {
    let goals: Vec<G> = seq.iter().map(|(a, b)| G::Eq(a.clone(), b.clone())).collect();
    if hide {
        // only v0 is a query variable; the rest are fresh
        Program::new(vec![0], vec![G::Fresh((1..NV).collect(), goals)])
    } else {
        Program::new((0..NV).collect(), goals)
    }
}

impl Check for C01 {
    fn id(&self) -> &'static str {
        "C01"
    }
    fn gens(&self) -> Vec<GenSpec> {
        let n = small_terms().len() as u64;
        vec![
            GenSpec { name: "pairs", quick: n, thorough: n },
            GenSpec { name: "hostile", quick: 30_000, thorough: 1_000_000 },
            GenSpec { name: "random", quick: 30_000, thorough: 1_000_000 },
        ]
    }
    fn exhaustive(&self) -> bool {
        false
    }
    fn rule(&self) -> &'static str {
        "'pairs' (enumerated, seed-independent): every ordered pair of the terms of depth <= 1 over {1, 2, x, y, []} built with proper lists of length 1-3, improper lists, Pair, Named, tuple, Some, Triple, each under no prior binding and under 9 prior bindings (aliases in both orientations, bindings to atoms, lists, compounds, improper list on the left); 'hostile': an alias chain followed by a binding that closes a cycle through lists and/or compounds, variable on either side, optionally through an intermediate variable; 'random': sequences of 2-5 unifications of random terms of depth <= 3 over 5 atoms, 4 variables, lists, improper lists and five compound types. Each sequence runs in lock-step on a real State (State::unify) and on the reference Robinson unifier: same success bit at every step; on success the two sides walk* to the same term, the tuple of all variables is a variant of the reference MGU's, and the state invariants (acyclic substitution, checked with a fuel-bounded walker before any real walk*) hold. Sequences that pass are then run as whole queries (all variables visible, and with only one visible) and compared with the reference answers. Distinct = distinct sequence text; non-trivial = at least one step binds a variable to a structure or is refused."
    }
    fn assumptions(&self) -> Vec<String> {
        vec!["reference: textbook Robinson unification with occurs check over the harness's own term type (pvmon::term::Subst)".into(), "most-generality is checked as 'variant of the reference MGU' (an MGU is unique up to renaming)".into()]
    }
    fn floor(&self, tier: Tier) -> u64 {
        match tier {
            Tier::Quick => 20_000,
            Tier::Thorough => 500_000,
        }
    }
    fn required_counters(&self) -> Vec<&'static str> {
        vec!["unify_success", "unify_failure_agreed", "occurs_check_refusals", "mgu_compared", "queries_compared", "bindings_to_structures"]
    }
    fn run_case(&self, gen: &str, seed: u64, index: u64, tier: Tier) -> CaseOut {
        let mut out = CaseOut::default();
        let mut seqs: Vec<Vec<(T, T)>> = vec![];
        match gen {
            "pairs" => {
                let terms = small_terms();
                let a = &terms[index as usize % terms.len()];
                for b in terms.iter() {
                    for p in priors() {
                        let mut s = vec![];
                        if let Some(p) = p {
                            s.push(p);
                        }
                        s.push((a.clone(), b.clone()));
                        seqs.push(s);
                    }
                }
            }
            "hostile" => {
                let mut rng = Rng::for_case(seed, gen, index);
                seqs.push(hostile_seq(&mut rng));
            }
            _ => {
                let mut rng = Rng::for_case(seed, gen, index);
                let n = 2 + rng.below(4);
                let depth = if tier == Tier::Thorough && rng.chance(1, 3) { 3 } else { 2 };
                let mut s = vec![];
                for _ in 0..n {
                    let a = if rng.chance(1, 3) { T::Var(rng.below(NV as usize) as V) } else { rand_term(&mut rng, depth) };
                    let b = rand_term(&mut rng, depth);
                    if rng.chance(1, 2) {
                        s.push((a, b));
                    } else {
                        s.push((b, a));
                    }
                }
                seqs.push(s);
            }
        }
        let cfg = RunCfg { max_answers: 10, step_budget: 200_000, extra_next: 1, display: true };
        for (k, seq) in seqs.iter().enumerate() {
            let before = out.violations.len();
            let c0 = out.counters.get("bindings_to_structures").copied().unwrap_or(0) + out.counters.get("unify_failure_agreed").copied().unwrap_or(0);
            let ok = lockstep(seq, &mut out, "State::unify");
            let c1 = out.counters.get("bindings_to_structures").copied().unwrap_or(0) + out.counters.get("unify_failure_agreed").copied().unwrap_or(0);
            if c1 > c0 {
                out.distinct.push(crate::util::fnv(&format!("{:?}", seq)));
            }
            // query level (Eq::solve, reification, walk_star incl. compounds), only when the
            // state-level run was clean (a cyclic state would overflow the stack in real code)
            let do_query = ok && out.violations.len() == before && (gen != "pairs" || k % 7 == (index as usize) % 7);
            if do_query {
                for hide in [false, true].iter() {
                    let prog = seq_program(seq, *hide);
                    let real = run_query(&prog, &cfg);
                    if !usable(&real, &mut out, &prog, "query") {
                        continue;
                    }
                    match ref_answers(&prog, false) {
                        Ok(rans) => {
                            out.count("queries_compared", 1);
                            let a = tuple_multiset(&real.answers);
                            let b = tuple_multiset(&rans);
                            if a != b {
                                out.violate("M-ref", "query answers differ from the reference", format!("real {} vs reference {}", show_terms(&a), show_terms(&b)), format!("{}", prog));
                            }
                        }
                        Err(e) => out.inconclusive.push(format!("reference: {:?}", e)),
                    }
                }
            }
            if out.sample.is_none() && k == 17 {
                out.sample = Some(crate::util::Json::obj().with("sequence", crate::util::Json::s(seq.iter().map(|(a, b)| format!("{} == {}", a, b)).collect::<Vec<_>>().join(", "))));
            }
        }
        if out.sample.is_none() && index % 5000 == 1 {
            out.sample = Some(crate::util::Json::obj().with("sequence", crate::util::Json::s(seqs[0].iter().map(|(a, b)| format!("{} == {}", a, b)).collect::<Vec<_>>().join(", "))));
        }
        let mut seen = BTreeSet::new();
        out.violations.retain(|v| seen.insert(v.signature.clone()));
        out
    }
}
