//! C10 — search branches are isolated from each other.
use super::common::*;
use crate::ast::*;
use crate::build::*;
use crate::canon::*;
use crate::framework::*;
use crate::refsem::Ref;
use crate::run::*;
use crate::term::{T, V};
use crate::util::Rng;
use std::collections::BTreeSet;

pub struct C10;

fn v(i: V) -> T {
    T::Var(i)
}

const NV: usize = 4;

fn xv(rng: &mut Rng) -> T {
    v(rng.below(NV) as V)
}

fn small(rng: &mut Rng) -> T {
    T::Int(rng.range(0, 3))
}

/// Shared prefix: posts constraints and domains that the branches will wake up.
fn prefix(rng: &mut Rng, fd: bool) -> Vec<G> {
    let all = T::list((0..NV as V).map(v).collect());
    let mut p = vec![];
    if fd {
        p.push(G::InFdRange(all.clone(), 0, 3));
        match rng.below(4) {
            0 => p.push(G::Distinctfd(all.clone())),
            1 => p.push(G::Distinctfd(T::list(vec![v(0), v(1), v(2)]))),
            2 => {
                p.push(G::Ltefd(v(0), v(1)));
                p.push(G::Plusfd(v(1), v(2), v(3)));
            }
            _ => {
                p.push(G::Diseqfd(v(0), v(1)));
                p.push(G::Distinctfd(T::list(vec![v(1), v(2), v(3)])));
            }
        }
    } else {
        let n = 1 + rng.below(3);
        for _ in 0..n {
            match rng.below(4) {
                0 => p.push(G::Diseq(xv(rng), small(rng))),
                1 => p.push(G::Diseq(T::list(vec![xv(rng), xv(rng)]), T::list(vec![small(rng), small(rng)]))),
                2 => p.push(G::Diseq(xv(rng), xv(rng))),
                _ => p.push(G::Plusz(xv(rng), xv(rng), xv(rng))),
            }
        }
    }
    p
}

fn branch(rng: &mut Rng, fd: bool, tag_base: u32) -> Vec<G> {
    let n = 1 + rng.below(4);
    let mut b = vec![];
    let mut tag = tag_base;
    if rng.chance(1, 16) {
        // the empty clause `[]`: an empty conjunction, which succeeds once
        return vec![];
    }
    if rng.chance(1, 12) {
        // a branch that succeeds statically (`true`): the stream of the disjunction then carries a
        // mature state next to siblings that are still pending
        return vec![G::Succeed];
    }
    if rng.chance(1, 12) {
        // a depth-first block as one branch of the interleaving disjunction
        tag += 1;
        let x = xv(rng);
        return vec![G::Dfs(vec![vec![G::Cond(vec![vec![G::Eq(x.clone(), small(rng))], vec![G::Eq(x, small(rng))]])]]), G::Probe(tag)];
    }
    if rng.chance(1, 10) {
        // a branch that fails statically (the goal tree collapses to Fail at construction)
        b.push(G::Fail);
        if rng.chance(1, 2) {
            return b;
        }
    }
    if rng.chance(1, 6) {
        // the branch is a conjunction that STARTS (or continues) with a nested disjunction written
        // with the same keyword; the goals after it belong to every alternative of the nested one
        let x = xv(rng);
        let k = 2 + rng.below(2);
        let nested = G::Conde((0..k).map(|_| vec![G::Eq(x.clone(), small(rng))]).collect());
        if rng.chance(1, 3) {
            b.push(G::Eq(xv(rng), small(rng)));
        }
        b.push(nested);
    }
    for _ in 0..n {
        let g = match rng.below(if fd { 9 } else { 8 }) {
            0 | 1 => G::Eq(xv(rng), small(rng)),
            2 => G::Eq(xv(rng), xv(rng)),
            3 => {
                // several answers, so that states of both branches are alive at the same time
                let k = 2 + rng.below(3);
                G::Call(Rel::Member, vec![xv(rng), T::list((0..k).map(|_| small(rng)).collect())])
            }
            4 => {
                tag += 1;
                G::Probe(tag)
            }
            5 => {
                if fd {
                    G::Ltfd(xv(rng), xv(rng))
                } else {
                    G::Diseq(xv(rng), small(rng))
                }
            }
            6 => {
                if fd {
                    G::Diseqfd(xv(rng), xv(rng))
                } else {
                    G::Diseq(T::list(vec![xv(rng), xv(rng)]), T::list(vec![small(rng), small(rng)]))
                }
            }
            7 => {
                if fd {
                    G::InFd(xv(rng), vec![0, 2, 3])
                } else {
                    G::Timesz(xv(rng), small(rng), xv(rng))
                }
            }
            _ => G::Plusfd(xv(rng), small(rng), xv(rng)),
        };
        b.push(g);
    }
    tag += 1;
    b.push(G::Probe(tag));
    b
}

fn prog(body: Vec<G>) -> Program {
    Program::new((0..NV as V).collect(), body)
}

/// (tuple up to renaming, tags) pairs of the final states of a state-level run.
fn tagged_answers(st: &StatesOut) -> Vec<(T, Vec<u32>)> {
    let mut out: Vec<(T, Vec<u32>)> = st
        .finals
        .iter()
        .map(|f| {
            let mut m = std::collections::BTreeMap::new();
            (f.answer.tuple.rename_with(&mut m), f.state.user_state.tags.clone())
        })
        .collect();
    out.sort();
    out
}

impl Check for C10 {
    fn id(&self) -> &'static str {
        "C10"
    }
    fn gens(&self) -> Vec<GenSpec> {
        vec![GenSpec { name: "fd", quick: 5000, thorough: 300_000 }, GenSpec { name: "tree", quick: 5000, thorough: 300_000 }, GenSpec { name: "fixed", quick: 3, thorough: 3 }]
    }
    fn rule(&self) -> &'static str {
        "Programs `prefix, conde { A, B [, C] }, suffix` over 4 query variables. 'fd': the prefix gives all variables the domain 0..=3 and posts distinctfd / ltefd+plusfd / diseqfd constraints, so both branches wake the SAME constraint objects (incl. DistinctFd2Constraint, which updates itself through Rc::make_mut); 'tree': prefix of disequalities and a plusz. Branches of 1-4 goals: bindings, aliasing, member with 2-4 answers (so states of different branches are alive at the same time), further constraints, user-state updates (probe tags), each ending in a probe; occasionally the empty clause `[]`, a statically succeeding branch (`true`), a statically failing one, a dfs { cond { } } block as a branch, or a branch that starts with a nested conde followed by further goals; optional suffix goal shared by all branches. Monitors: (1) the answers of the combined program must equal, as a multiset, the union of the answers of `prefix, A, suffix`, `prefix, B, suffix`, ... run separately (real vs real); (2) M-snap: a clone of the state is retained at every probe with an order-insensitive fingerprint of substitution, constraint store incl. constraint internals, domain store and user state, and is re-fingerprinted after the whole search has finished: it must not have changed; (3) every final state's probe-tag trail must be the trail of exactly one branch (compared with the reference interpreter's trails). Distinct = distinct program text; non-trivial = at least two branches reach a probe."
    }
    fn assumptions(&self) -> Vec<String> {
        vec!["fingerprints rely on the derived Debug output of constraints (covers DistinctFd2Constraint's y and n fields)".into(), "tag trails are compared with pvmon::refsem".into()]
    }
    fn floor(&self, tier: Tier) -> u64 {
        match tier {
            Tier::Quick => 3500,
            Tier::Thorough => 150_000,
        }
    }
    fn required_counters(&self) -> Vec<&'static str> {
        vec!["union_compared", "snapshots_rechecked", "tag_trails_compared", "programs_with_shared_distinctfd", "programs_with_interleaved_branches"]
    }
    fn miri_lane(&self, tier: Tier) -> Option<(Vec<(&'static str, u64, u64)>, bool)> {
        // thorough only: the same run_case code interpreted by Miri (Rc::make_mut / copy-on-write paths)
        if tier == Tier::Thorough {
            Some((vec![("fd", 0, 16), ("tree", 0, 12), ("fixed", 0, 3)], false))
        } else {
            None
        }
    }
    fn run_case(&self, gen: &str, seed: u64, index: u64, _tier: Tier) -> CaseOut {
        let mut out = CaseOut::default();
        let mut rng = Rng::for_case(seed, gen, index);
        let fd = gen == "fd" || (gen == "fixed" && index < 2);
        let (pre, branches, suf): (Vec<G>, Vec<Vec<G>>, Vec<G>) = if gen == "fixed" {
            let all = T::list((0..NV as V).map(v).collect());
            match index {
                0 => (
                    vec![G::InFdRange(all.clone(), 0, 3), G::Distinctfd(T::list(vec![v(0), v(1), v(2)]))],
                    vec![vec![G::Eq(v(0), T::Int(1)), G::Probe(1)], vec![G::Eq(v(0), T::Int(2)), G::Eq(v(1), T::Int(1)), G::Probe(2)]],
                    vec![G::Eq(v(3), T::Int(0))],
                ),
                1 => (
                    vec![G::InFdRange(all.clone(), 0, 3), G::Distinctfd(all.clone())],
                    vec![vec![G::Call(Rel::Member, vec![v(0), T::list(vec![T::Int(0), T::Int(1), T::Int(2)])]), G::Probe(1)], vec![G::Call(Rel::Member, vec![v(1), T::list(vec![T::Int(0), T::Int(1)])]), G::Probe(2)], vec![G::Eq(v(2), T::Int(3)), G::Probe(3)]],
                    vec![],
                ),
                _ => (
                    vec![G::Diseq(T::list(vec![v(0), v(1)]), T::list(vec![T::Int(1), T::Int(2)]))],
                    vec![vec![G::Eq(v(0), T::Int(1)), G::Probe(1)], vec![G::Eq(v(1), T::Int(2)), G::Probe(2)], vec![G::Diseq(v(0), T::Int(1)), G::Probe(3)]],
                    vec![G::Eq(v(2), v(3))],
                ),
            }
        } else {
            let pre = prefix(&mut rng, fd);
            let nb = 2 + rng.below(2);
            let branches: Vec<Vec<G>> = (0..nb).map(|k| branch(&mut rng, fd, 10 * (k as u32 + 1))).collect();
            let suf = if rng.chance(1, 2) { vec![if fd { G::Ltefd(xv(&mut rng), xv(&mut rng)) } else { G::Eq(xv(&mut rng), small(&mut rng)) }] } else { vec![] };
            (pre, branches, suf)
        };
        let mut body = pre.clone();
        body.push(G::Conde(branches.clone()));
        body.extend(suf.iter().cloned());
        let whole = prog(body);
        let cfg = RunCfg { max_answers: 20_000, step_budget: 3_000_000, extra_next: 1, display: false };
        let st = run_states(&whole, &cfg, true);
        out.count("programs", 1);
        if !usable_states(&st, &mut out, &whole, "combined run") {
            return out;
        }
        if pre.iter().any(|g| g.kind() == "distinctfd") {
            out.count("programs_with_shared_distinctfd", 1);
        }
        // (2) snapshots: re-fingerprint every retained clone now that the search is over
        for rec in st.probes.iter() {
            out.count("snapshots_rechecked", 1);
            let now = state_fingerprint(&rec.state);
            if now != rec.fp {
                let diff: Vec<String> = {
                    let a: BTreeSet<&str> = rec.fp.lines().collect();
                    let b: BTreeSet<&str> = now.lines().collect();
                    a.symmetric_difference(&b).take(4).map(|s| s.chars().take(200).collect::<String>()).collect()
                };
                out.violate("M-snap", "a state retained in one branch changed after it was captured (a sibling branch or later goal mutated shared data)", format!("probe {}: fingerprint changed; differing entries: {:?}", rec.id, diff), format!("{}", whole));
                break;
            }
        }
        // interleaving evidence: probes of different branches alternate in capture order
        let order: Vec<u32> = st.probes.iter().map(|r| r.id / 10).collect();
        let switches = order.windows(2).filter(|w| w[0] != w[1]).count();
        if switches >= 2 {
            out.count("programs_with_interleaved_branches", 1);
        }
        // (1) union of the branches run alone
        let uni = universe(&whole, &[]);
        let combined: Vec<Ans> = st.finals.iter().map(|f| f.answer.clone()).collect();
        let mut union: Vec<Ans> = vec![];
        let mut ok = true;
        for b in branches.iter() {
            let mut bb = pre.clone();
            bb.extend(b.iter().cloned());
            bb.extend(suf.iter().cloned());
            let bp = prog(bb);
            let r = run_states(&bp, &cfg, true);
            if !usable_states(&r, &mut out, &bp, "branch alone") {
                ok = false;
                break;
            }
            if !r.ended {
                // cut at the answer cap: not a complete multiset
                out.count("comparisons_skipped_answer_cap", 1);
                ok = false;
                break;
            }
            union.extend(r.finals.iter().map(|f| f.answer.clone()));
        }
        if ok && !st.ended {
            out.count("comparisons_skipped_answer_cap", 1);
            ok = false;
        }
        if ok {
            out.count("union_compared", 1);
            if let Cmp::Different(why) = compare_multisets(&combined, &union, &uni) {
                out.violate("M-meta", "answers of conde { A, B } differ from the union of A alone and B alone", format!("{} | combined {} | union of branches {}", why, show_answers(&combined), show_answers(&union)), format!("{}", whole));
            }
        }
        // (3) tag trails against the reference
        let mut r = Ref::new(&whole);
        match r.run() {
            Ok(rans) => {
                out.count("tag_trails_compared", 1);
                let mut expect: Vec<(T, Vec<u32>)> = rans
                    .iter()
                    .map(|a| {
                        let mut m = std::collections::BTreeMap::new();
                        (a.tuple.rename_with(&mut m), a.tags.clone())
                    })
                    .collect();
                expect.sort();
                let got = tagged_answers(&st);
                if got != expect {
                    let show = |v: &Vec<(T, Vec<u32>)>| v.iter().take(12).map(|(t, g)| format!("{}#{:?}", t, g)).collect::<Vec<_>>().join("; ");
                    out.violate("M-user", "user state (probe-tag trail) of an answer is not the trail of its own branch", format!("got {} | expected {}", show(&got), show(&expect)), format!("{}", whole));
                }
            }
            Err(e) => out.inconclusive.push(format!("reference: {:?}", e)),
        }
        let reached: BTreeSet<u32> = st.probes.iter().map(|r| r.id / 10).collect();
        if reached.len() >= 2 {
            out.distinct.push(program_key(&whole));
        }
        if index % 499 == 1 || gen == "fixed" && index == 0 {
            out.sample = Some(sample_json(&whole, &combined, &format!("{} snapshots re-checked, probe capture order (branch ids): {:?}", st.probes.len(), order.iter().take(20).collect::<Vec<_>>())));
        }
        let mut seen = BTreeSet::new();
        out.violations.retain(|v| seen.insert(v.signature.clone()));
        out
    }
}
