//! Shared pieces of the search checks (C05-C08): path-counter bookkeeping.
use crate::framework::CaseOut;
use proto_vulcan::verif::{self, Paths};

pub const ARMS: [&str; 4] = ["empty", "unit", "lazy", "cons"];
pub const OPS: [&str; 4] = ["mplus", "bind", "mplus_dfs", "bind_dfs"];
pub const LAZY: [&str; 8] = ["mplus", "bind", "pause", "mplus_dfs", "bind_dfs", "pause_dfs", "delay", "iterator"];
pub const DRIVE: [&str; 3] = ["next", "peek", "trunc"];

/// Add the H2 path counters of one run to the case's counters (evidence + inconclusive rule).
pub fn count_paths(out: &mut CaseOut, p: &Option<Paths>) {
    if let Some(p) = p {
        for (o, op) in OPS.iter().enumerate() {
            for (a, arm) in ARMS.iter().enumerate() {
                if p.alg[o][a] > 0 {
                    out.count(&format!("path_{}_{}", op, arm), p.alg[o][a]);
                }
            }
        }
        for (k, name) in LAZY.iter().enumerate() {
            if p.lazy[k] > 0 {
                out.count(&format!("step_{}", name), p.lazy[k]);
            }
        }
        for (k, name) in DRIVE.iter().enumerate() {
            if p.drive[k] > 0 {
                out.count(&format!("drive_{}", name), p.drive[k]);
            }
        }
    }
    let _ = verif::OP_MPLUS;
}
