//! C18 — FiniteDomain operations implement set semantics (model: BTreeSet<isize>).
use crate::framework::*;
use crate::util::{fnv, Json, Rng};
use proto_vulcan::state::FiniteDomain;
use std::collections::BTreeSet;
use std::panic::{catch_unwind, AssertUnwindSafe};

pub struct C18;

#[derive(Clone, Debug)]
pub struct Dom {
    pub desc: String,
    pub set: BTreeSet<isize>,
    pub build: DomBuild,
}

#[derive(Clone, Debug)]
pub enum DomBuild {
    Interval(isize, isize),
    Vec(Vec<isize>),
    Slice(Vec<isize>),
    Single(isize),
}

impl Dom {
    pub fn make(&self) -> FiniteDomain {
        match &self.build {
            DomBuild::Interval(a, b) => FiniteDomain::from(*a..=*b),
            DomBuild::Vec(v) => FiniteDomain::from(v.clone()),
            DomBuild::Slice(v) => FiniteDomain::from(&v[..]),
            DomBuild::Single(u) => FiniteDomain::from(*u),
        }
    }
}

fn window_domains(w: isize) -> Vec<Dom> {
    let mut out = vec![];
    for a in -w..=w {
        for b in a..=w {
            out.push(Dom { desc: format!("interval {}..={}", a, b), set: (a..=b).collect(), build: DomBuild::Interval(a, b) });
        }
    }
    for a in -w..=w {
        out.push(Dom { desc: format!("single {}", a), set: std::iter::once(a).collect(), build: DomBuild::Single(a) });
    }
    let n = (2 * w + 1) as u32;
    for mask in 1u32..(1u32 << n) {
        let items: Vec<isize> = (0..n).filter(|i| mask & (1 << i) != 0).map(|i| i as isize - w).collect();
        let set: BTreeSet<isize> = items.iter().copied().collect();
        out.push(Dom { desc: format!("sparse sorted {:?}", items), set: set.clone(), build: DomBuild::Vec(items.clone()) });
        // unsorted and duplicated construction of the same set
        let mut rng = Rng::for_case(7, "c18-shuffle", mask as u64);
        let mut messy = items.clone();
        let extra = 1 + rng.below(3);
        for _ in 0..extra {
            messy.push(*rng.pick(&items));
        }
        rng.shuffle(&mut messy);
        if mask % 2 == 0 {
            out.push(Dom { desc: format!("sparse messy vec {:?}", messy), set: set.clone(), build: DomBuild::Vec(messy) });
        } else {
            out.push(Dom { desc: format!("sparse messy slice {:?}", messy), set, build: DomBuild::Slice(messy) });
        }
    }
    out
}

fn extreme_domains() -> Vec<Dom> {
    let mut out = vec![];
    let mx = isize::MAX;
    let mn = isize::MIN;
    for (a, b) in [(mx - 2, mx), (mx - 1, mx), (mx, mx), (mn, mn + 2), (mn, mn + 1), (mn, mn)].iter() {
        out.push(Dom { desc: format!("interval {}..={}", a, b), set: (*a..=*b).collect(), build: DomBuild::Interval(*a, *b) });
    }
    for v in [vec![mn, mx], vec![mx, mn, 0], vec![mx], vec![mn], vec![mn, mn + 1, mx - 1, mx]].iter() {
        out.push(Dom { desc: format!("sparse {:?}", v), set: v.iter().copied().collect(), build: DomBuild::Vec(v.clone()) });
    }
    out
}

fn set_of(d: &FiniteDomain) -> Vec<isize> {
    d.iter().collect()
}

fn opt_set(o: &Option<FiniteDomain>) -> Option<Vec<isize>> {
    o.as_ref().map(set_of)
}

fn model_opt(s: BTreeSet<isize>) -> Option<Vec<isize>> {
    if s.is_empty() {
        None
    } else {
        Some(s.into_iter().collect())
    }
}

struct Ctx<'a> {
    out: &'a mut CaseOut,
}

impl<'a> Ctx<'a> {
    fn check<X: PartialEq + std::fmt::Debug>(&mut self, op: &str, input: &str, got: X, want: X) {
        self.out.count("comparisons", 1);
        if got != want {
            self.out.violate("M-model", &format!("FiniteDomain::{} disagrees with the set model", op), format!("{} on {}: got {:?}, set model says {:?}", op, input, got, want), format!("{} :: {}", op, input));
        }
    }
    fn guarded<X, F: FnOnce() -> X>(&mut self, op: &str, input: &str, f: F) -> Option<X> {
        match catch_unwind(AssertUnwindSafe(f)) {
            Ok(x) => Some(x),
            Err(_) => {
                let p = crate::run::take_last_panic().unwrap_or_default();
                self.out.violate("M-panic", &format!("FiniteDomain::{} panics ({})", op, p.location), format!("{} on {} panicked: {} at {}", op, input, p.message, p.location), format!("{} :: {}", op, input));
                None
            }
        }
    }
}

/// The result of an operation must itself be a well-formed domain: iteration strictly
/// increasing and `contains` agreeing with iteration.
fn well_formed(cx: &mut Ctx, op: &str, input: &str, d: &Option<FiniteDomain>, probe: &[isize]) {
    if let Some(d) = d {
        let items = set_of(d);
        let strictly = items.windows(2).all(|w| w[0] < w[1]);
        cx.check(&format!("{}→iter strictly increasing", op), input, strictly, true);
        if items.is_empty() {
            cx.check(&format!("{}→Some(empty)", op), input, false, true);
        }
        for p in probe {
            cx.check(&format!("{}→contains", op), &format!("{} probe {}", input, p), d.contains(*p), items.contains(p));
        }
    }
}

fn unary(cx: &mut Ctx, a: &Dom, probes: &[isize], thresholds: &[isize]) {
    let inp = a.desc.clone();
    let d = match cx.guarded("from", &inp, || a.make()) {
        Some(d) => d,
        None => return,
    };
    let model: Vec<isize> = a.set.iter().copied().collect();
    if let Some(x) = cx.guarded("iter", &inp, || d.iter().collect::<Vec<_>>()) {
        cx.check("iter", &inp, x, model.clone());
    }
    if let Some(x) = cx.guarded("iter.rev", &inp, || d.iter().rev().collect::<Vec<_>>()) {
        cx.check("iter.rev", &inp, x, model.iter().rev().copied().collect());
    }
    if let Some(x) = cx.guarded("into_iter", &inp, || d.clone().into_iter().collect::<Vec<_>>()) {
        cx.check("into_iter", &inp, x, model.clone());
    }
    if let Some(x) = cx.guarded("into_iter.rev", &inp, || d.clone().into_iter().rev().collect::<Vec<_>>()) {
        cx.check("into_iter.rev", &inp, x, model.iter().rev().copied().collect());
    }
    if let Some(x) = cx.guarded("min", &inp, || d.min()) {
        cx.check("min", &inp, x, *model.first().unwrap());
    }
    if let Some(x) = cx.guarded("max", &inp, || d.max()) {
        cx.check("max", &inp, x, *model.last().unwrap());
    }
    if let Some(x) = cx.guarded("is_singleton", &inp, || d.is_singleton()) {
        cx.check("is_singleton", &inp, x, model.len() == 1);
    }
    if let Some(x) = cx.guarded("singleton_value", &inp, || d.singleton_value()) {
        cx.check("singleton_value", &inp, x, if model.len() == 1 { Some(model[0]) } else { None });
    }
    for p in probes {
        if let Some(x) = cx.guarded("contains", &inp, || d.contains(*p)) {
            cx.check("contains", &format!("{} probe {}", inp, p), x, a.set.contains(p));
        }
    }
    #[allow(clippy::eq_op)]
    if let Some(x) = cx.guarded("==", &inp, || d == d.clone()) {
        cx.check("== (reflexive)", &inp, x, true);
    }
    for t in thresholds {
        let t = *t;
        // predicate shapes used by the propagators: `|u| t < *u` and `|v| t <= *v`
        let inp_t = format!("{} threshold {}", inp, t);
        let r = cx.guarded("copy_before", &inp_t, || d.copy_before(|u| t < *u));
        if let Some(r) = r {
            cx.check("copy_before(|u| t < u)", &inp_t, opt_set(&r), model_opt(a.set.iter().copied().take_while(|u| !(t < *u)).collect()));
            well_formed(cx, "copy_before", &inp_t, &r, probes);
        }
        let r = cx.guarded("copy_before", &inp_t, || d.copy_before(|u| t <= *u));
        if let Some(r) = r {
            cx.check("copy_before(|u| t <= u)", &inp_t, opt_set(&r), model_opt(a.set.iter().copied().take_while(|u| !(t <= *u)).collect()));
        }
        let r = cx.guarded("drop_before", &inp_t, || d.drop_before(|v| t <= *v));
        if let Some(r) = r {
            cx.check("drop_before(|v| t <= v)", &inp_t, opt_set(&r), model_opt(a.set.iter().copied().skip_while(|v| !(t <= *v)).collect()));
            well_formed(cx, "drop_before", &inp_t, &r, probes);
        }
        let r = cx.guarded("drop_before", &inp_t, || d.drop_before(|v| t < *v));
        if let Some(r) = r {
            cx.check("drop_before(|v| t < v)", &inp_t, opt_set(&r), model_opt(a.set.iter().copied().skip_while(|v| !(t < *v)).collect()));
        }
    }
}

fn binary(cx: &mut Ctx, a: &Dom, b: &Dom, probes: &[isize]) {
    let inp = format!("({}) , ({})", a.desc, b.desc);
    let (da, db) = match cx.guarded("from", &inp, || (a.make(), b.make())) {
        Some(x) => x,
        None => return,
    };
    if let Some(r) = cx.guarded("intersect", &inp, || da.intersect(&db)) {
        cx.check("intersect", &inp, opt_set(&r), model_opt(a.set.intersection(&b.set).copied().collect()));
        well_formed(cx, "intersect", &inp, &r, probes);
    }
    if let Some(r) = cx.guarded("diff", &inp, || da.diff(&db)) {
        cx.check("diff", &inp, opt_set(&r), model_opt(a.set.difference(&b.set).copied().collect()));
        well_formed(cx, "diff", &inp, &r, probes);
    }
    if let Some(r) = cx.guarded("is_disjoint", &inp, || da.is_disjoint(&db)) {
        cx.check("is_disjoint", &inp, r, a.set.is_disjoint(&b.set));
    }
    if let Some(r) = cx.guarded("==", &inp, || da == db) {
        cx.check("==", &inp, r, a.set == b.set);
    }
    if let Some(r) = cx.guarded("!=", &inp, || da != db) {
        cx.check("!=", &inp, r, a.set != b.set);
    }
}

impl Check for C18 {
    fn id(&self) -> &'static str {
        "C18"
    }
    fn gens(&self) -> Vec<GenSpec> {
        let n3 = window_domains(3).len() as u64;
        let n4 = window_domains(4).len() as u64;
        vec![
            GenSpec { name: "window3", quick: n3, thorough: n3 },
            GenSpec { name: "window4", quick: 0, thorough: n4 },
            GenSpec { name: "extreme", quick: extreme_domains().len() as u64, thorough: extreme_domains().len() as u64 },
            GenSpec { name: "random", quick: 200, thorough: 20_000 },
        ]
    }
    fn rule(&self) -> &'static str {
        "window3/window4: every interval a..=b, every singleton and every non-empty subset of the window (built from a sorted vector and from a shuffled vector/slice with duplicates) is one case; each case runs all unary operations (all thresholds -w-1..=w+1, both predicate shapes) and all binary operations against EVERY other domain of the window (exhaustive over ordered pairs). extreme: short intervals and sparse sets at isize::MIN/MAX against each other and the window. random: larger random domains (|values| up to 40 in -60..=60). A case is counted distinct+non-trivial by (denoted set, representation) when the set has >= 2 elements."
    }
    fn assumptions(&self) -> Vec<String> {
        vec![
            "the model is std BTreeSet<isize>; a domain denotes the set of values it was built from".into(),
            "copy_before/drop_before are specified as take_while(!p)/skip_while(!p) and are exercised only with the monotone threshold predicates the propagators use".into(),
            "intervals at the isize extremes are kept to length <= 3 so that interval iteration stays bounded".into(),
        ]
    }
    fn exhaustive(&self) -> bool {
        true
    }
    fn floor(&self, tier: Tier) -> u64 {
        match tier {
            Tier::Quick => 200,
            Tier::Thorough => 500,
        }
    }
    fn run_case(&self, gen: &str, seed: u64, index: u64, _tier: Tier) -> CaseOut {
        let mut out = CaseOut::default();
        crate::run::install_panic_hook();
        let (a, others, probes, thresholds): (Dom, Vec<Dom>, Vec<isize>, Vec<isize>) = match gen {
            "window3" | "window4" => {
                let w = if gen == "window3" { 3 } else { 4 };
                let all = window_domains(w);
                let a = all[index as usize].clone();
                (a, all, (-w - 2..=w + 2).collect(), (-w - 1..=w + 1).collect())
            }
            "extreme" => {
                let ex = extreme_domains();
                let a = ex[index as usize].clone();
                let mut others = ex.clone();
                others.extend(window_domains(1));
                let probes = vec![isize::MIN, isize::MIN + 1, -1, 0, 1, isize::MAX - 1, isize::MAX];
                (a, others, probes.clone(), probes)
            }
            _ => {
                let mut rng = Rng::for_case(seed, "c18-random", index);
                let mk = |rng: &mut Rng| -> Dom {
                    if rng.chance(1, 3) {
                        let a = rng.range(-60, 60) as isize;
                        let b = a + rng.range(0, 40) as isize;
                        Dom { desc: format!("interval {}..={}", a, b), set: (a..=b).collect(), build: DomBuild::Interval(a, b) }
                    } else {
                        let n = 1 + rng.below(40);
                        let v: Vec<isize> = (0..n).map(|_| rng.range(-60, 60) as isize).collect();
                        Dom { desc: format!("sparse {:?}", v), set: v.iter().copied().collect(), build: if rng.chance(1, 2) { DomBuild::Vec(v) } else { DomBuild::Slice(v) } }
                    }
                };
                let a = mk(&mut rng);
                let others: Vec<Dom> = (0..12).map(|_| mk(&mut rng)).collect();
                let probes: Vec<isize> = (0..12).map(|_| rng.range(-62, 62) as isize).collect();
                (a, others, probes.clone(), probes)
            }
        };
        {
            let mut cx = Ctx { out: &mut out };
            unary(&mut cx, &a, &probes, &thresholds);
            for b in others.iter() {
                binary(&mut cx, &a, b, &probes);
                cx.out.count("pairs", 1);
            }
        }
        out.count("domains", 1);
        if a.set.len() >= 2 {
            let repr = match a.build {
                DomBuild::Interval(..) => "I",
                DomBuild::Vec(..) => "V",
                DomBuild::Slice(..) => "S",
                DomBuild::Single(..) => "1",
            };
            out.distinct.push(fnv(&format!("{:?}/{}/{}", a.set, repr, a.desc)));
        }
        if index % 97 == 3 {
            out.sample = Some(Json::obj().with("domain", Json::s(a.desc.clone())).with("denotes", Json::s(format!("{:?}", a.set))).with("paired_with", Json::Int(others.len() as i64)));
        }
        // dedupe violations by signature within the case
        let mut seen = std::collections::BTreeSet::new();
        out.violations.retain(|v| seen.insert(v.signature.clone()));
        out
    }
}
