//! C02 — disequality constraints (CLP(Tree)) are sound, complete and order-free.
use super::common::*;
use crate::ast::*;
use crate::canon::*;
use crate::framework::*;
use crate::gen::*;
use crate::run::*;
use crate::term::{T, V};
use crate::util::{permutations, Rng};
use std::collections::{BTreeMap, BTreeSet};

pub struct C02;

/// Direct truth-table evaluation of a Fresh-free formula under a ground assignment.
fn truth(g: &G, m: &BTreeMap<V, T>) -> Option<bool> {
    Some(match g {
        G::Eq(a, b) => {
            if a.has_any() || b.has_any() {
                return None;
            }
            a.subst(m) == b.subst(m)
        }
        G::Diseq(a, b) => {
            if a.has_any() || b.has_any() {
                return None;
            }
            a.subst(m) != b.subst(m)
        }
        G::Succeed => true,
        G::Fail => false,
        G::Conj(gs) => {
            let mut r = true;
            for x in gs {
                r &= truth(x, m)?;
            }
            r
        }
        G::Conde(cs) => {
            let mut any = false;
            for c in cs {
                let mut r = true;
                for x in c {
                    r &= truth(x, m)?;
                }
                any |= r;
            }
            any
        }
        _ => return None,
    })
}

fn cfg_for(gen: &str, rng: &mut Rng, tier: Tier) -> TreeCfg {
    let mut c = TreeCfg::default();
    c.nq = 1 + rng.below(2);
    c.compounds = rng.chance(1, 4);
    match gen {
        "flat" => {
            c.fresh = false;
            c.nq = 2;
            c.max_goals = 5;
        }
        "hostile" => {
            c.hostile_diseq = true;
            c.max_goals = 4;
        }
        _ => {}
    }
    if tier == Tier::Thorough {
        c.max_goals += 1;
        if rng.chance(1, 4) {
            c.depth = 3;
        }
    }
    c
}

impl Check for C02 {
    fn id(&self) -> &'static str {
        "C02"
    }
    fn gens(&self) -> Vec<GenSpec> {
        vec![
            GenSpec { name: "tree", quick: 12_000, thorough: 600_000 },
            GenSpec { name: "hostile", quick: 8000, thorough: 400_000 },
            GenSpec { name: "flat", quick: 6000, thorough: 200_000 },
            GenSpec { name: "fixed", quick: FIXED.len() as u64, thorough: FIXED.len() as u64 },
        ]
    }
    fn rule(&self) -> &'static str {
        "random pure tree programs (==, !=, conjunction, conde, fresh; 1-2 query variables; terms to depth 2-3 over 5 atoms, proper/improper lists, optionally compounds). 'hostile' injects subsuming/duplicate disequality pairs and the bindings that decide them; 'flat' has no fresh so the reference itself is cross-checked against truth-table evaluation; 'fixed' are hand-written regression programs. Each case: real answers vs reference answers as multisets of ground-instance sets over a finite universe (program atoms + 2 fresh atoms + short lists + compounds), then every permutation of the top-level conjunction (all if <= 4 goals, else 6 random) and one random nested permutation, real vs real; probes after every goal check the state invariants. Distinct = distinct program text; non-trivial = uses != and at least 2 goal kinds and has at least one answer or a failing branch."
    }
    fn assumptions(&self) -> Vec<String> {
        vec![
            "reference model: Robinson unification + re-checking raw disequalities (pvmon::refsem), cross-checked against truth tables on the fresh-free fragment in this run".into(),
            "instance comparison over a finite universe; answers with more than 3 free variables are compared on tuples only (counted in observed.tuples_only)".into(),
        ]
    }
    fn floor(&self, tier: Tier) -> u64 {
        match tier {
            Tier::Quick => 5000,
            Tier::Thorough => 200_000,
        }
    }
    fn required_counters(&self) -> Vec<&'static str> {
        vec!["answers_with_constraints", "permutations_compared", "truth_table_selftests", "probe_states_checked"]
    }
    fn run_case(&self, gen: &str, seed: u64, index: u64, tier: Tier) -> CaseOut {
        let mut out = CaseOut::default();
        let mut rng = Rng::for_case(seed, gen, index);
        let prog = if gen == "fixed" {
            fixed_program(index as usize)
        } else {
            let cfg = cfg_for(gen, &mut rng, tier);
            TreeGen::new(&mut rng, cfg).program()
        };
        let cfg = RunCfg::default();
        // reference
        let rans = match ref_answers(&prog, false) {
            Ok(a) => a,
            Err(e) => {
                out.inconclusive.push(format!("reference: {:?}", e));
                return out;
            }
        };
        let uni = universe(&prog, &[]);
        // real
        let real = run_query(&prog, &cfg);
        out.count("programs", 1);
        if !usable(&real, &mut out, &prog, "query") {
            return out;
        }
        out.count("answers", real.answers.len() as u64);
        out.count("engine_steps", real.steps);
        out.count("answers_with_constraints", real.answers.iter().filter(|a| !a.cons.is_empty()).count() as u64);
        if cut_at_cap(real.ended, real.answers.len(), true, rans.len()) {
            out.count("comparisons_skipped_answer_cap", 1);
            return out;
        }
        match compare_multisets(&real.answers, &rans, &uni) {
            Cmp::Equal => out.count("ref_compared_instances", 1),
            Cmp::EqualTuplesOnly => out.count("tuples_only", 1),
            Cmp::Different(why) => {
                out.violate("M-ref", "answers differ from the reference semantics", format!("real vs reference: {} | real {} | reference {}", why, show_answers(&real.answers), show_answers(&rans)), format!("{}", prog));
            }
        }
        // reference self-test against truth tables (fresh-free fragment)
        if gen == "flat" || gen == "fixed" {
            let k = prog.qvars.len();
            if k <= 2 {
                let mut sols: BTreeSet<T> = BTreeSet::new();
                let mut decidable = true;
                let n = uni.len();
                'tt: for idx in 0..n.pow(k as u32) {
                    let mut m = BTreeMap::new();
                    let mut r = idx;
                    for v in prog.qvars.iter() {
                        m.insert(*v, uni[r % n].clone());
                        r /= n;
                    }
                    let mut all = true;
                    for g in prog.body.iter() {
                        match truth(g, &m) {
                            Some(b) => all &= b,
                            None => {
                                decidable = false;
                                break 'tt;
                            }
                        }
                    }
                    if all {
                        sols.insert(prog.query_term().subst(&m));
                    }
                }
                if decidable {
                    let mut union: BTreeSet<T> = BTreeSet::new();
                    let mut wide = false;
                    for a in rans.iter() {
                        match instances(a, &uni) {
                            Some(s) => union.extend(s),
                            None => wide = true,
                        }
                    }
                    // the truth table ranges over U^k only: restrict the instance sets to tuples
                    // whose components all lie in U
                    let uset: BTreeSet<T> = uni.iter().cloned().collect();
                    let in_u = |t: &T| -> bool { t.unroll().0.iter().all(|c| uset.contains(*c)) };
                    union.retain(|t| in_u(t));
                    if !wide {
                        out.count("truth_table_selftests", 1);
                        if union != sols {
                            // the ORACLE is wrong: never a verdict about proto-vulcan
                            out.inconclusive.push(format!("reference self-test failed (reference {} vs truth table {} solutions) on {}", union.len(), sols.len(), prog));
                            out.count("reference_selftest_failures", 1);
                        }
                        let mut runion: BTreeSet<T> = BTreeSet::new();
                        let mut rwide = false;
                        for a in real.answers.iter() {
                            match instances(a, &uni) {
                                Some(s) => runion.extend(s),
                                None => rwide = true,
                            }
                        }
                        runion.retain(|t| in_u(t));
                        if !rwide && runion != sols {
                            let extra: Vec<String> = runion.difference(&sols).take(3).map(|t| format!("{}", t)).collect();
                            let missing: Vec<String> = sols.difference(&runion).take(3).map(|t| format!("{}", t)).collect();
                            out.violate("M-truth", "ground instances of the answers differ from the ground solutions", format!("instances that are not solutions: {:?}; solutions that are no instance of any answer: {:?}; answers {}", extra, missing, show_answers(&real.answers)), format!("{}", prog));
                        }
                    }
                }
            }
        }
        // posting-order independence: permutations, real vs real
        let n = prog.body.len();
        let perms: Vec<Vec<usize>> = if n <= 4 {
            permutations(n)
        } else {
            (0..6)
                .map(|_| {
                    let mut p: Vec<usize> = (0..n).collect();
                    rng.shuffle(&mut p);
                    p
                })
                .collect()
        };
        let mut variants: Vec<Program> = perms.iter().filter(|p| p.iter().enumerate().any(|(i, j)| i != *j)).map(|p| reorder_top(&prog, p)).collect();
        variants.push(permute_program(&mut rng, &prog, true, false));
        for pv in variants.iter() {
            let r2 = run_query(pv, &cfg);
            if !usable(&r2, &mut out, pv, "permuted query") {
                continue;
            }
            out.count("permutations_compared", 1);
            if cut_at_cap(real.ended, real.answers.len(), r2.ended, r2.answers.len()) {
                out.count("comparisons_skipped_answer_cap", 1);
            } else if let Cmp::Different(why) = compare_multisets(&real.answers, &r2.answers, &uni) {
                out.violate("M-meta", "answers depend on the posting order", format!("original vs permuted: {} | original {} | permuted {} | permuted program: {}", why, show_answers(&real.answers), show_answers(&r2.answers), pv), format!("{}", prog));
                break;
            }
        }
        // state invariants at probes after every goal
        let probed = with_probes(&prog);
        let st = run_states(&probed, &cfg, false);
        if usable_states(&st, &mut out, &probed, "probed run") {
            for rec in st.probes.iter() {
                out.count("probe_states_checked", 1);
                for (sig, msg) in state_invariants(&rec.state) {
                    out.violate("M-state", &sig, format!("at probe {}: {}", rec.id, msg), format!("{}", prog));
                }
            }
            for f in st.finals.iter() {
                out.count("final_states_checked", 1);
                for (sig, msg) in state_invariants(&f.state) {
                    out.violate("M-state", &sig, format!("at final state: {}", msg), format!("{}", prog));
                }
            }
            // the state-level answers must agree with the query-level answers
            let sa: Vec<Ans> = st.finals.iter().map(|f| f.answer.clone()).collect();
            if cut_at_cap(st.ended, sa.len(), true, rans.len()) {
                out.count("comparisons_skipped_answer_cap", 1);
            } else if let Cmp::Different(why) = compare_multisets(&sa, &rans, &uni) {
                out.violate("M-ref", "final states differ from the reference semantics", format!("states vs reference: {} | states {} | reference {}", why, show_answers(&sa), show_answers(&rans)), format!("{}", prog));
            }
        }
        let has_diseq = prog.body.iter().any(|g| g.has_kind("diseq"));
        if has_diseq && prog.goal_kinds().len() >= 2 {
            out.distinct.push(program_key(&prog));
        }
        if index % 211 == 5 || gen == "fixed" && index == 0 {
            out.sample = Some(sample_json(&prog, &real.answers, &format!("reference: {}", show_answers(&rans))));
        }
        let mut seen = BTreeSet::new();
        out.violations.retain(|v| seen.insert(v.signature.clone()));
        out
    }
}

fn v(i: V) -> T {
    T::Var(i)
}

const FIXED: [&str; 6] = ["subsume-strong-first", "subsume-weak-first", "duplicate", "hidden", "later-equal", "compound"];

fn fixed_program(i: usize) -> Program {
    let l = |a: T, b: T| T::list(vec![a, b]);
    match i {
        0 => Program::new(vec![0, 1], vec![G::Diseq(v(0), T::Int(5)), G::Diseq(l(v(0), v(1)), l(T::Int(5), T::Int(6))), G::Eq(v(0), T::Int(5)), G::Eq(v(1), T::Int(7))]),
        1 => Program::new(vec![0, 1], vec![G::Diseq(l(v(0), v(1)), l(T::Int(5), T::Int(6))), G::Diseq(v(0), T::Int(5)), G::Eq(v(0), T::Int(5)), G::Eq(v(1), T::Int(7))]),
        2 => Program::new(vec![0, 1], vec![G::Diseq(l(v(0), v(1)), l(T::Int(5), T::Int(6))), G::Diseq(l(v(0), v(1)), l(T::Int(5), T::Int(6))), G::Eq(v(0), T::Int(5))]),
        3 => Program::new(vec![0], vec![G::Fresh(vec![1], vec![G::Diseq(v(0), v(1)), G::Conde(vec![vec![G::Eq(v(1), T::Int(1))], vec![G::Succeed]])])]),
        4 => Program::new(vec![0, 1], vec![G::Diseq(v(0), v(1)), G::Diseq(l(v(0), T::Int(1)), l(v(1), T::Int(1))), G::Conde(vec![vec![G::Eq(v(0), v(1))], vec![G::Eq(v(0), T::Int(1))]])]),
        _ => Program::new(vec![0, 1], vec![G::Diseq(T::pair(v(0), v(1)), T::pair(T::Int(1), T::Int(2))), G::Diseq(v(0), T::Int(1)), G::Eq(v(0), T::Int(1)), G::Eq(v(1), T::Int(3))]),
    }
}
