//! Typed compound terms (`#[compound] struct TreeNode(LTerm, TreeNode, TreeNode)` and its named
//! twin), compiled lane of C20.
//!
//! Compounds whose fields are themselves compound-typed go through machinery the other lanes do
//! not touch: typed logic variables (`|q: TreeNode|`), `[]` as the empty value of a typed field,
//! `_` as a typed wildcard, constructor terms nested in argument position, and tuple-like / named
//! compound patterns in `match`. The workload is the relation of the repository's `tree-nodes`
//! example (a tree and the in-order list of its node names, depth-bounded), driven in three modes
//! with generated inputs, and a typed `same(a, b)` (`a == b`). The oracle is independent of the
//! engine: binary trees are enumerated in Rust.
use crate::framework::*;
use crate::term::{T, V};
use crate::util::{bump_by, fnv, Json, Rng};
use std::collections::BTreeMap;
use std::path::PathBuf;
use std::process::Command;

#[derive(Clone, Debug, PartialEq)]
pub enum Tr {
    E,
    N(T, Box<Tr>, Box<Tr>),
}

#[derive(Clone, Debug)]
pub enum NameP {
    Lit(T),
    Var(usize),
    Any,
}

#[derive(Clone, Debug)]
pub enum Pt {
    E,
    N(NameP, Box<Pt>, Box<Pt>),
    Hole(usize),
    Any,
}

#[derive(Clone, Debug)]
pub enum Mode {
    /// ground tree in, list of names out: `|q| { tree_nodes_unnamed(<tree>, d, (q, [])) }`
    Forward(Tr),
    /// list in, every tree out: `|q: TreeNode| { tree_nodes_*(q, d, (<list>, [])) }`
    Backward(Vec<T>, bool),
    /// partially specified tree (typed holes, name variables, wildcards) against a ground list
    Partial(Pt, Vec<T>, usize, usize),
    /// `same(<pattern a>, <pattern b>)`: unification of two typed terms
    Same(Pt, Pt, usize, usize),
}

fn name(rng: &mut Rng) -> T {
    match rng.below(6) {
        0 => T::Str(["a", "b", "c"][rng.below(3)].to_string()),
        1 => T::Char(['x', 'y'][rng.below(2)]),
        _ => T::Int(rng.range(1, 4)),
    }
}

fn tree(rng: &mut Rng, depth: usize) -> Tr {
    if depth == 0 || rng.chance(1, 3) {
        Tr::E
    } else {
        Tr::N(name(rng), Box::new(tree(rng, depth - 1)), Box::new(tree(rng, depth - 1)))
    }
}

fn inorder(t: &Tr, out: &mut Vec<T>) {
    if let Tr::N(n, l, r) = t {
        inorder(l, out);
        out.push(n.clone());
        inorder(r, out);
    }
}

fn depth(t: &Tr) -> usize {
    match t {
        Tr::E => 0,
        Tr::N(_, l, r) => 1 + depth(l).max(depth(r)),
    }
}

/// Every binary tree whose in-order name sequence is `names`.
fn all_trees(names: &[T]) -> Vec<Tr> {
    if names.is_empty() {
        return vec![Tr::E];
    }
    let mut out = vec![];
    for i in 0..names.len() {
        for l in all_trees(&names[..i]) {
            for r in all_trees(&names[i + 1..]) {
                out.push(Tr::N(names[i].clone(), Box::new(l.clone()), Box::new(r)));
            }
        }
    }
    out
}

fn enc(t: &Tr) -> T {
    match t {
        Tr::E => T::Nil,
        Tr::N(n, l, r) => T::list(vec![n.clone(), enc(l), enc(r)]),
    }
}

/// Pattern as a harness term: holes are variables 100+i, name variables 200+i, wildcards fresh 300+.
fn enc_pt(p: &Pt, next_any: &mut V) -> T {
    match p {
        Pt::E => T::Nil,
        Pt::Hole(i) => T::Var(100 + *i as V),
        Pt::Any => {
            *next_any += 1;
            T::Var(*next_any)
        }
        Pt::N(n, l, r) => {
            let nt = match n {
                NameP::Lit(t) => t.clone(),
                NameP::Var(i) => T::Var(200 + *i as V),
                NameP::Any => {
                    *next_any += 1;
                    T::Var(*next_any)
                }
            };
            let lt = enc_pt(l, next_any);
            let rt = enc_pt(r, next_any);
            T::list(vec![nt, lt, rt])
        }
    }
}

/// Random pattern: the root is a constructor whose direct children are not `[]` (written directly
/// under the top-level constructor `[]` is an untyped list literal and does not type-check).
fn pattern(rng: &mut Rng, depth: usize, top: bool, holes: &mut usize, nvars: usize) -> Pt {
    let r = rng.below(10);
    if !top && depth > 0 && r < 2 {
        return Pt::E;
    }
    if !top && (depth == 0 || r < 5) {
        return match rng.below(4) {
            0 => Pt::Any,
            1 if depth > 0 => Pt::E,
            _ => {
                *holes += 1;
                Pt::Hole(*holes - 1)
            }
        };
    }
    let n = match rng.below(5) {
        0 => NameP::Any,
        1 | 2 if nvars > 0 => NameP::Var(rng.below(nvars)),
        _ => NameP::Lit(name(rng)),
    };
    let child = |rng: &mut Rng, holes: &mut usize| -> Pt {
        let c = pattern(rng, depth.saturating_sub(1), false, holes, nvars);
        if top && matches!(c, Pt::E) {
            *holes += 1;
            Pt::Hole(*holes - 1)
        } else {
            c
        }
    };
    let l = child(rng, holes);
    let rr = child(rng, holes);
    Pt::N(n, Box::new(l), Box::new(rr))
}

fn lit_src(t: &T) -> String {
    match t {
        T::Int(i) => format!("{}", i),
        T::Str(s) => format!("{:?}", s),
        T::Char(c) => format!("{:?}", c),
        other => format!("{}", other),
    }
}

fn tr_src(t: &Tr) -> String {
    match t {
        Tr::E => "[]".into(),
        Tr::N(n, l, r) => format!("TreeNode({}, {}, {})", lit_src(n), tr_src(l), tr_src(r)),
    }
}

fn pt_src(p: &Pt) -> String {
    match p {
        Pt::E => "[]".into(),
        Pt::Any => "_".into(),
        Pt::Hole(i) => format!("h{}", i),
        Pt::N(n, l, r) => {
            let ns = match n {
                NameP::Lit(t) => lit_src(t),
                NameP::Var(i) => format!("x{}", i),
                NameP::Any => "_".into(),
            };
            format!("TreeNode({}, {}, {})", ns, pt_src(l), pt_src(r))
        }
    }
}

fn list_src(xs: &[T]) -> String {
    format!("[{}]", xs.iter().map(lit_src).collect::<Vec<_>>().join(", "))
}

pub struct TypedCase {
    pub mode: Mode,
    pub text: String,
}

const PRELUDE: &str = r#"#![allow(unused_imports, non_snake_case, dead_code, unused_variables)]
extern crate proto_vulcan;
use proto_vulcan::prelude::*;

#[compound]
struct TreeNode(LTerm, TreeNode, TreeNode);

#[compound]
struct NamedNode { name: LTerm, left: NamedNode, right: NamedNode }

fn tree_nodes_unnamed<U: User, E: Engine<U>>(node: TreeNode<U, E>, d: LTerm<U, E>, (list, rest): (LTerm<U, E>, LTerm<U, E>)) -> Goal<U, E> {
    proto_vulcan_closure!(match node {
        [] => list == rest,
        TreeNode(name, left, right) => |ls0, ls1, ls2| {
            [_|ls0] == d,
            tree_nodes_unnamed(left, ls0, (list, ls1)),
            ls1 == [name | ls2],
            tree_nodes_unnamed(right, ls0, (ls2, rest))
        },
    })
}

fn tree_nodes_named<U: User, E: Engine<U>>(node: NamedNode<U, E>, d: LTerm<U, E>, (list, rest): (LTerm<U, E>, LTerm<U, E>)) -> Goal<U, E> {
    proto_vulcan_closure!(match node {
        [] => list == rest,
        NamedNode { name, left, right } => |ls0, ls1, ls2| {
            [_|ls0] == d,
            tree_nodes_named(left, ls0, (list, ls1)),
            ls1 == [name | ls2],
            tree_nodes_named(right, ls0, (ls2, rest))
        },
    })
}

fn same<U: User, E: Engine<U>>(a: TreeNode<U, E>, b: TreeNode<U, E>) -> Goal<U, E> {
    proto_vulcan!(a == b)
}
"#;

fn case_src(k: usize, c: &Mode) -> String {
    let ones = |n: usize| format!("[{}]", vec!["1"; n].join(", "));
    let (vars, goal, prints): (String, String, Vec<String>) = match c {
        Mode::Forward(t) => ("q".into(), format!("tree_nodes_unnamed({}, {}, (q, []))", tr_src(t), ones(depth(t) + 1)), vec!["q".into()]),
        Mode::Backward(l, named) => {
            if *named {
                ("q: NamedNode".into(), format!("tree_nodes_named(q, {}, ({}, []))", ones(l.len() + 1), list_src(l)), vec!["q".into()])
            } else {
                ("q: TreeNode".into(), format!("tree_nodes_unnamed(q, {}, ({}, []))", ones(l.len() + 1), list_src(l)), vec!["q".into()])
            }
        }
        Mode::Partial(p, l, nh, nx) => {
            let mut vs: Vec<String> = (0..*nh).map(|i| format!("h{}: TreeNode", i)).collect();
            vs.extend((0..*nx).map(|i| format!("x{}", i)));
            let mut pr: Vec<String> = (0..*nh).map(|i| format!("h{}", i)).collect();
            pr.extend((0..*nx).map(|i| format!("x{}", i)));
            (vs.join(", "), format!("tree_nodes_unnamed({}, {}, ({}, []))", pt_src(p), ones(l.len() + 1), list_src(l)), pr)
        }
        Mode::Same(a, b, nh, nx) => {
            let mut vs: Vec<String> = (0..*nh).map(|i| format!("h{}: TreeNode", i)).collect();
            vs.extend((0..*nx).map(|i| format!("x{}", i)));
            let mut pr: Vec<String> = (0..*nh).map(|i| format!("h{}", i)).collect();
            pr.extend((0..*nx).map(|i| format!("x{}", i)));
            (vs.join(", "), format!("same({}, {})", pt_src(a), pt_src(b)), pr)
        }
    };
    let fmt = prints.iter().map(|_| "{}").collect::<Vec<_>>().join(" ;; ");
    let args = prints.iter().map(|p| format!("r.{}", p)).collect::<Vec<_>>().join(", ");
    format!(
        "fn case_{k}() {{\n    let query = proto_vulcan_query!(|{vars}| {{ {goal} }});\n    let mut n = 0;\n    for r in query.run() {{\n        n += 1;\n        if n > 60 {{ println!(\"CAPPED {k}\"); break; }}\n        println!(\"ANS {k} {fmt}\", {args});\n    }}\n    println!(\"END {k}\");\n}}\n",
        k = k,
        vars = vars,
        goal = goal,
        fmt = fmt,
        args = args
    )
}

// --- parser of the Display output of typed results ------------------------------------------

struct P<'a> {
    s: &'a [u8],
    i: usize,
}

impl<'a> P<'a> {
    fn ws(&mut self) {
        while self.i < self.s.len() && self.s[self.i] == b' ' {
            self.i += 1;
        }
    }
    fn eat(&mut self, t: &str) -> bool {
        self.ws();
        if self.s[self.i..].starts_with(t.as_bytes()) {
            self.i += t.len();
            true
        } else {
            false
        }
    }
    fn number(&mut self) -> Option<i64> {
        self.ws();
        let st = self.i;
        if self.i < self.s.len() && self.s[self.i] == b'-' {
            self.i += 1;
        }
        while self.i < self.s.len() && self.s[self.i].is_ascii_digit() {
            self.i += 1;
        }
        std::str::from_utf8(&self.s[st..self.i]).ok()?.parse().ok()
    }
    fn term(&mut self) -> Option<T> {
        self.ws();
        if self.eat("Empty") {
            return Some(T::Nil);
        }
        if self.eat("Var(VarID(") {
            let n = self.number()?;
            if !self.eat("), \"_\")") {
                return None;
            }
            return Some(T::Var(n as V));
        }
        if self.eat("_.") {
            let n = self.number()?;
            return Some(T::Var(n as V));
        }
        if self.eat("[") {
            let mut items = vec![];
            if self.eat("]") {
                return Some(T::Nil);
            }
            loop {
                items.push(self.term()?);
                if self.eat(",") {
                    continue;
                }
                if self.eat("|") {
                    let tail = self.term()?;
                    if !self.eat("]") {
                        return None;
                    }
                    return Some(T::improper(items, tail));
                }
                if self.eat("]") {
                    return Some(T::list(items));
                }
                return None;
            }
        }
        if self.eat("\"") {
            let st = self.i;
            while self.i < self.s.len() && self.s[self.i] != b'"' {
                self.i += 1;
            }
            let v = std::str::from_utf8(&self.s[st..self.i]).ok()?.to_string();
            self.i += 1;
            return Some(T::Str(v));
        }
        if self.eat("'") {
            let c = self.s[self.i] as char;
            self.i += 1;
            if !self.eat("'") {
                return None;
            }
            return Some(T::Char(c));
        }
        if self.eat("TreeNode(") {
            let a = self.term()?;
            if !self.eat(",") {
                return None;
            }
            let b = self.term()?;
            if !self.eat(",") {
                return None;
            }
            let c = self.term()?;
            if !self.eat(")") {
                return None;
            }
            return Some(T::list(vec![a, b, c]));
        }
        if self.eat("NamedNode {") {
            if !self.eat("name:") {
                return None;
            }
            let a = self.term()?;
            if !(self.eat(",") && self.eat("left:")) {
                return None;
            }
            let b = self.term()?;
            if !(self.eat(",") && self.eat("right:")) {
                return None;
            }
            let c = self.term()?;
            if !self.eat("}") {
                return None;
            }
            return Some(T::list(vec![a, b, c]));
        }
        if self.eat("true") {
            return Some(T::Bool(true));
        }
        if self.eat("false") {
            return Some(T::Bool(false));
        }
        self.number().map(T::Int)
    }
}

pub fn parse_typed(s: &str) -> Option<T> {
    let mut p = P { s: s.as_bytes(), i: 0 };
    let t = p.term()?;
    p.ws();
    if p.i == p.s.len() {
        Some(t)
    } else {
        None
    }
}

fn canon_tuple(ts: &[T]) -> T {
    let mut m = BTreeMap::new();
    T::list(ts.to_vec()).rename_with(&mut m)
}

/// Expected answers (canonical tuples, as a sorted multiset); None = the case has no finite oracle.
fn expected(c: &Mode) -> Option<Vec<T>> {
    let mut out = vec![];
    match c {
        Mode::Forward(t) => {
            let mut l = vec![];
            inorder(t, &mut l);
            out.push(canon_tuple(&[T::list(l)]));
        }
        Mode::Backward(l, _) => {
            for t in all_trees(l) {
                out.push(canon_tuple(&[enc(&t)]));
            }
        }
        Mode::Partial(p, l, nh, nx) => {
            let mut na = 300;
            let pt = enc_pt(p, &mut na);
            for t in all_trees(l) {
                let mut b = BTreeMap::new();
                if crate::term::match_term(&pt, &enc(&t), &mut b) {
                    let mut tuple = vec![];
                    for i in 0..*nh {
                        tuple.push(b.get(&(100 + i as V)).cloned().unwrap_or(T::Var(100 + i as V)));
                    }
                    for i in 0..*nx {
                        tuple.push(b.get(&(200 + i as V)).cloned().unwrap_or(T::Var(200 + i as V)));
                    }
                    out.push(canon_tuple(&tuple));
                }
            }
        }
        Mode::Same(a, b, nh, nx) => {
            let mut na = 300;
            let ta = enc_pt(a, &mut na);
            let tb = enc_pt(b, &mut na);
            let mut s = crate::term::Subst::new();
            let mut ext = vec![];
            if s.unify(&ta, &tb, &mut ext) {
                let mut tuple = vec![];
                for i in 0..*nh {
                    tuple.push(s.walk_star(&T::Var(100 + i as V)));
                }
                for i in 0..*nx {
                    tuple.push(s.walk_star(&T::Var(200 + i as V)));
                }
                out.push(canon_tuple(&tuple));
            }
        }
    }
    out.sort();
    Some(out)
}

pub fn typed_cases(tier: Tier, seed: u64) -> Vec<TypedCase> {
    let n = if tier == Tier::Thorough { 1200 } else { 120 };
    let mut cases = vec![];
    for i in 0..n {
        let mut rng = Rng::for_case(seed, "c20-typed", i as u64);
        let mode = match i % 4 {
            0 => {
                // a ground tree whose root has two non-empty children
                let l = Tr::N(name(&mut rng), Box::new(tree(&mut rng, 2)), Box::new(tree(&mut rng, 2)));
                let r = Tr::N(name(&mut rng), Box::new(tree(&mut rng, 2)), Box::new(tree(&mut rng, 2)));
                Mode::Forward(Tr::N(name(&mut rng), Box::new(l), Box::new(r)))
            }
            1 => {
                let k = 1 + rng.below(4);
                Mode::Backward((0..k).map(|_| name(&mut rng)).collect(), rng.chance(1, 2))
            }
            2 => {
                let k = 1 + rng.below(4);
                let l: Vec<T> = (0..k).map(|_| name(&mut rng)).collect();
                let nx = rng.below(3);
                let mut nh = 0;
                // bias the literal names of the pattern towards names of the list
                let mut p = pattern(&mut rng, 2, true, &mut nh, nx);
                fn rebias(p: &mut Pt, l: &[T], rng: &mut Rng) {
                    if let Pt::N(n, a, b) = p {
                        if let NameP::Lit(_) = n {
                            if rng.chance(3, 4) {
                                *n = NameP::Lit(l[rng.below(l.len())].clone());
                            }
                        }
                        rebias(a, l, rng);
                        rebias(b, l, rng);
                    }
                }
                rebias(&mut p, &l, &mut rng);
                // a query needs at least one variable (an unused name variable is reported unbound)
                let nx = if nh == 0 && nx == 0 { 1 } else { nx };
                Mode::Partial(p, l, nh, nx)
            }
            _ => {
                let nx = 1 + rng.below(2);
                let mut nh = 0;
                let a = pattern(&mut rng, 2, true, &mut nh, nx);
                let b = pattern(&mut rng, 2, true, &mut nh, nx);
                Mode::Same(a, b, nh, nx)
            }
        };
        let text = format!("{:?}", mode);
        cases.push(TypedCase { mode, text });
    }
    cases
}

fn viol(merged: &mut Merged, case: &str, monitor: &str, sig: &str, msg: String, prog: String) {
    merged.violations.push((case.to_string(), Violation { monitor: monitor.into(), signature: sig.into(), message: msg, program: prog }));
}

/// Build, run and judge the typed-compound lane. `only`: replay of a single case.
pub fn run_typed_lane(id: &str, tier: Tier, seed: u64, only: Option<usize>) -> Merged {
    let mut merged = Merged::default();
    let all = typed_cases(tier, seed);
    let idx: Vec<usize> = match only {
        Some(k) if k < all.len() => vec![k],
        Some(_) => vec![],
        None => (0..all.len()).collect(),
    };
    let dir = PathBuf::from(verif_root()).join("harness").join("pvgen").join(format!("{}T{}", id, if only.is_some() { "R" } else { "" }));
    let _ = std::fs::remove_dir_all(dir.join("src"));
    let _ = std::fs::create_dir_all(dir.join("src"));
    let _ = std::fs::create_dir_all(dir.join(".cargo"));
    let pkg = format!("pvgen_{}t", id.to_lowercase());
    let _ = std::fs::write(
        dir.join("Cargo.toml"),
        format!(
            "[package]\nname = \"{}\"\nversion = \"0.1.0\"\nedition = \"2018\"\n\n[dependencies]\nproto-vulcan = {{ path = \"{}\" }}\n\n[profile.dev]\nopt-level = 0\ndebug = 0\n\n[workspace]\n",
            pkg,
            std::env::var("PVMON_REPO").unwrap_or_else(|_| "/repo".to_string())
        ),
    );
    let _ = std::fs::write(dir.join(".cargo/config.toml"), "[net]\noffline = true\n\n[build]\nrustflags = [\"--cfg\", \"terohuttunen_proto_vulcan_verif\", \"-Awarnings\"]\n");
    let _ = std::fs::copy(PathBuf::from(verif_root()).join("harness").join("Cargo.lock"), dir.join("Cargo.lock"));
    let mut src = String::from(PRELUDE);
    let mut calls = String::new();
    for k in idx.iter() {
        src.push_str(&case_src(*k, &all[*k].mode));
        calls.push_str(&format!("        let _ = std::panic::catch_unwind(|| case_{}()).map_err(|_| println!(\"PANIC {}\"));\n", k, k));
    }
    src.push_str(&format!("fn main() {{\n    let h = std::thread::Builder::new().stack_size(1 << 28).spawn(|| {{\n{}    }}).unwrap();\n    h.join().unwrap();\n}}\n", calls));
    let _ = std::fs::write(dir.join("src/main.rs"), src);
    let target = PathBuf::from(verif_root()).join("harness").join("target").join("pvgen");
    let t0 = std::time::Instant::now();
    let build = Command::new("cargo").arg("build").arg("--offline").current_dir(&dir).env("CARGO_TARGET_DIR", &target).env("CARGO_NET_OFFLINE", "true").output();
    bump_by(&mut merged.counters, "typed_crate_build_seconds", t0.elapsed().as_secs());
    let build = match build {
        Ok(b) => b,
        Err(e) => {
            merged.inconclusive.push(format!("typed lane: cannot run cargo: {}", e));
            return merged;
        }
    };
    if !build.status.success() {
        let err = String::from_utf8_lossy(&build.stderr).to_string();
        if err.contains("could not compile `proto-vulcan") || err.contains("could not compile `proto_vulcan") {
            merged.inconclusive.push("typed lane: proto-vulcan itself does not compile".into());
            return merged;
        }
        let first: String = err.lines().filter(|l| l.starts_with("error") || l.contains("-->")).take(6).collect::<Vec<_>>().join(" | ");
        merged.cases += idx.len() as u64;
        viol(&mut merged, "typed:build", "M-compile", "a generated well-formed typed-compound program does not compile", first, "typed lane crate".into());
        return merged;
    }
    let exe = target.join("debug").join(&pkg);
    let run = match Command::new(&exe).output() {
        Ok(r) => r,
        Err(e) => {
            merged.inconclusive.push(format!("typed lane: cannot run {}: {}", exe.display(), e));
            return merged;
        }
    };
    let stdout = String::from_utf8_lossy(&run.stdout).to_string();
    let mut answers: BTreeMap<usize, Vec<String>> = BTreeMap::new();
    let mut ended: BTreeMap<usize, &'static str> = BTreeMap::new();
    for line in stdout.lines() {
        let mut it = line.splitn(3, ' ');
        let tag = it.next().unwrap_or("");
        let k: usize = it.next().and_then(|x| x.parse().ok()).unwrap_or(usize::MAX);
        match tag {
            "ANS" => answers.entry(k).or_default().push(it.next().unwrap_or("").to_string()),
            "END" => {
                ended.entry(k).or_insert("ended");
            }
            "CAPPED" => {
                ended.insert(k, "capped");
            }
            "PANIC" => {
                ended.insert(k, "panic");
            }
            _ => {}
        }
    }
    for k in idx.iter() {
        merged.cases += 1;
        let c = &all[*k];
        let case = format!("typed:{}", k);
        let tag = match c.mode {
            Mode::Forward(_) => "typed_forward",
            Mode::Backward(_, true) => "typed_backward_named",
            Mode::Backward(_, false) => "typed_backward_unnamed",
            Mode::Partial(..) => "typed_partial",
            Mode::Same(..) => "typed_same",
        };
        bump_by(&mut merged.counters, tag, 1);
        match ended.get(k).copied() {
            Some("ended") => {}
            Some("panic") => {
                viol(&mut merged, &case, "M-panic", "typed-compound program panics", "panic while solving".into(), c.text.clone());
                continue;
            }
            Some("capped") => {
                bump_by(&mut merged.counters, "cases_inconclusive", 1);
                continue;
            }
            _ => {
                if !run.status.success() {
                    viol(&mut merged, &case, "M-crash", "typed-compound program run did not complete", format!("process status {}", run.status), c.text.clone());
                } else {
                    merged.inconclusive.push(format!("{}: no END line", case));
                }
                continue;
            }
        }
        let lines = answers.get(k).cloned().unwrap_or_default();
        let mut real: Vec<T> = vec![];
        let mut bad = None;
        for l in lines.iter() {
            let parts: Vec<Option<T>> = l.split(" ;; ").map(parse_typed).collect();
            if parts.iter().any(|p| p.is_none()) {
                bad = Some(l.clone());
                break;
            }
            real.push(canon_tuple(&parts.into_iter().map(|p| p.unwrap()).collect::<Vec<_>>()));
        }
        if let Some(l) = bad {
            merged.inconclusive.push(format!("{}: answer line not understood: {}", case, l.chars().take(160).collect::<String>()));
            bump_by(&mut merged.counters, "cases_inconclusive", 1);
            continue;
        }
        real.sort();
        bump_by(&mut merged.counters, "typed_programs_compiled_and_run", 1);
        bump_by(&mut merged.counters, "typed_answers_observed", real.len() as u64);
        if let Some(exp) = expected(&c.mode) {
            bump_by(&mut merged.counters, "typed_compared_with_enumeration", 1);
            if exp != real {
                let show = |v: &Vec<T>| v.iter().map(|t| format!("{}", t)).collect::<Vec<_>>().join("; ");
                viol(&mut merged, &case, "M-ref", "typed compound program: answers differ from the enumeration of trees", format!("real {{{}}} | expected {{{}}}", show(&real), show(&exp)), c.text.clone());
            }
            if !exp.is_empty() {
                merged.distinct.insert(fnv(&c.text));
            }
        }
        if merged.samples.len() < 2 && *k % 37 == 2 {
            merged.samples.push(Json::obj().with("typed_case", Json::s(c.text.chars().take(300).collect::<String>())).with("emitted", Json::s(case_src(*k, &c.mode).chars().take(500).collect::<String>())).with("answers", Json::s(lines.join(" / ").chars().take(400).collect::<String>())));
        }
    }
    merged
}
