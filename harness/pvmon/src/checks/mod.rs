//! One module per property.
use crate::framework::Check;
pub mod c01;
pub mod c02;
pub mod c03;
pub mod c04;
pub mod c05;
pub mod c06;
pub mod c07;
pub mod c08;
pub mod c09;
pub mod c10;
pub mod c11;
pub mod c12;
pub mod c13;
pub mod c14;
pub mod c15;
pub mod c16;
pub mod c17;
pub mod c18;
pub mod c19;
pub mod c21;
pub mod c22;
pub mod c23;
pub mod c24;
pub mod fd;
pub mod mirilane;
pub mod search;
pub mod surface;
pub mod surfgen;
pub mod typed;
pub mod c20;
pub mod common;

pub fn all() -> Vec<Box<dyn Check>> {
    vec![Box::new(c01::C01), Box::new(c02::C02), Box::new(c03::C03), Box::new(c04::C04), Box::new(c05::C05), Box::new(c06::C06), Box::new(c07::C07), Box::new(c08::C08), Box::new(c09::C09), Box::new(c10::C10), Box::new(c11::C11), Box::new(c12::C12), Box::new(c13::C13), Box::new(c14::C14), Box::new(c15::C15), Box::new(c16::C16), Box::new(c17::C17), Box::new(c18::C18), Box::new(c19::C19), Box::new(c20::C20), Box::new(c21::C21), Box::new(c22::C22), Box::new(c23::C23), Box::new(c24::C24)]
}

pub fn by_id(id: &str) -> Option<Box<dyn Check>> {
    all().into_iter().find(|c| c.id() == id)
}
