//! One module per property.
use crate::framework::Check;
pub mod c02;
pub mod c03;
pub mod c18;
pub mod common;

pub fn all() -> Vec<Box<dyn Check>> {
    vec![Box::new(c02::C02), Box::new(c03::C03), Box::new(c18::C18)]
}

pub fn by_id(id: &str) -> Option<Box<dyn Check>> {
    all().into_iter().find(|c| c.id() == id)
}
