//! Direct exercise of the one `unsafe` block of the crate (`LTerm::project`), for the Miri lane:
//! a projection term cloned into several holders, projected, read through every holder, and
//! projected a second time (must panic cleanly, not corrupt).
use crate::build::*;
use proto_vulcan::lterm::LTerm;
use proto_vulcan::state::SMap;
use std::panic::{catch_unwind, AssertUnwindSafe};

pub fn direct_projection() -> u64 {
    let mut checks = 0;
    for variant in 0..6 {
        let x: L = LTerm::var("x");
        let p: L = LTerm::projection(x.clone());
        // holders sharing the same Rc payload
        let in_list: L = LTerm::from_vec(vec![p.clone(), LTerm::from(1isize)]);
        let in_tail: L = LTerm::cons(LTerm::from(0isize), p.clone());
        let in_pair: L = Into::<L>::into(comp::Pair_compound::_InnerPair(p.clone(), LTerm::from(2isize)));
        let mut smap: SMap<U, E> = SMap::new();
        let y: L = LTerm::var("y");
        smap.extend(y.clone(), p.clone());
        let value: L = match variant {
            0 => LTerm::from(5isize),
            1 => LTerm::from("five"),
            2 => LTerm::from_vec(vec![LTerm::from(1isize), LTerm::from(2isize)]),
            3 => LTerm::var("z"),
            4 => LTerm::empty_list(),
            _ => Into::<L>::into(comp::Pair_compound::_InnerPair(LTerm::from(true), LTerm::from('c'))),
        };
        let v2 = value.clone();
        p.project(move |orig| {
            assert!(orig.is_var());
            v2
        });
        // every holder must now show the projected value
        let shown = [format!("{}", p), format!("{}", in_list[0]), format!("{}", in_tail.tail().unwrap()), format!("{:?}", in_pair), format!("{}", smap.walk(&y))];
        assert_eq!(shown[0], format!("{}", value));
        assert_eq!(shown[1], shown[0]);
        assert_eq!(shown[2], shown[0]);
        assert_eq!(shown[4], shown[0]);
        assert!(p == value && in_list[0] == value);
        checks += 5;
        // a second projection is documented to panic; it must do so without touching memory
        let r = catch_unwind(AssertUnwindSafe(|| p.project(|_| LTerm::from(9isize))));
        let _ = crate::run::take_last_panic();
        assert!(r.is_err());
        assert_eq!(format!("{}", p), shown[0]);
        checks += 1;
        drop(in_list);
        drop(in_tail);
        drop(in_pair);
    }
    checks
}
