//! C06 — interleaving search loses no answers and invents none.
use super::common::*;
use super::search::*;
use crate::ast::*;
use crate::canon::*;
use crate::framework::*;
use crate::gen::*;
use crate::run::*;
use crate::term::{T, V};
use crate::util::Rng;
use std::collections::BTreeSet;

pub struct C06;

fn v(i: V) -> T {
    T::Var(i)
}

const FIXED: [&str; 6] = ["true-disjunct-middle", "nested-true-disjunct", "six-clauses", "always-prefix", "loop-true", "conj-multi"];

fn fixed_program(i: usize) -> Program {
    let eqc = |x: V, k: i64| vec![G::Eq(v(x), T::Int(k))];
    match i {
        0 => Program::new(vec![0], vec![G::Conde(vec![eqc(0, 1), vec![G::Succeed], eqc(0, 2)])]),
        1 => Program::new(vec![0], vec![G::Conde(vec![vec![G::Conde(vec![vec![G::Succeed], eqc(0, 1)])], eqc(0, 2)])]),
        2 => Program::new(vec![0], vec![G::Conde(vec![eqc(0, 1), eqc(0, 2), eqc(0, 3), eqc(0, 4), eqc(0, 5), eqc(0, 6)])]),
        3 => Program::new(vec![0], vec![G::Conde(vec![vec![G::Always, G::Eq(v(0), T::Int(1))], eqc(0, 2)])]),
        4 => Program::new(vec![0], vec![G::Conde(vec![vec![G::Loop(vec![vec![G::Succeed]])], eqc(0, 1)])]),
        _ => Program::new(vec![0, 1], vec![G::Call(Rel::Member, vec![v(0), T::list(vec![T::Int(1), T::Int(2), T::Int(3)])]), G::Conde(vec![eqc(1, 1), vec![G::Eq(v(1), v(0))], eqc(1, 3)])]),
    }
}

/// Turn a finite program into one with an infinite answer stream by putting `always()` in front
/// of a clause or wrapping a clause in `loop { }` (set reading: same set of answers).
thread_local! {
    /// query variable that a never()-guarded clause pretends to bind (set per case)
    static NEVER_Q: std::cell::Cell<V> = std::cell::Cell::new(0);
}

fn infinitize(rng: &mut Rng, g: &G, done: &mut bool) -> G {
    match g {
        G::Cond(cs) if !*done && rng.chance(1, 2) => {
            let k = rng.below(cs.len());
            let mut cs2 = cs.clone();
            *done = true;
            if rng.chance(1, 2) {
                cs2[k].insert(0, G::Always);
            } else {
                cs2[k] = vec![G::Loop(vec![cs2[k].clone()])];
            }
            if rng.chance(1, 3) {
                // a clause guarded by never(): it diverges without answers, so the binding behind it
                // (a constant no other clause uses) must never show up
                let pos = rng.below(cs2.len() + 1);
                cs2.insert(pos, if rng.chance(1, 4) { vec![G::Never] } else { vec![G::Never, G::Eq(T::Var(NEVER_Q.with(|c| c.get())), T::Int(99))] });
            }
            G::Cond(cs2)
        }
        G::Cond(cs) => G::Cond(cs.iter().map(|c| c.iter().map(|x| infinitize(rng, x, done)).collect()).collect()),
        G::Conj(gs) => G::Conj(gs.iter().map(|x| infinitize(rng, x, done)).collect()),
        G::Fresh(vs, gs) => G::Fresh(vs.clone(), gs.iter().map(|x| infinitize(rng, x, done)).collect()),
        other => other.clone(),
    }
}

impl Check for C06 {
    fn id(&self) -> &'static str {
        "C06"
    }
    fn gens(&self) -> Vec<GenSpec> {
        vec![
            GenSpec { name: "finite", quick: 8000, thorough: 400_000 },
            GenSpec { name: "infinite", quick: 3000, thorough: 100_000 },
            GenSpec { name: "fixed", quick: FIXED.len() as u64, thorough: FIXED.len() as u64 },
        ]
    }
    fn rule(&self) -> &'static str {
        "'finite': finite-tree programs (nested disjunctions of 2-6 clauses incl. trivially true/false clauses, multi-answer conjunctions, fresh, member/append/rember, generated recursive closures over ground lists, match with alternatives, ==, !=; nesting depth 3): the default interleaving run must return the same multiset of answers (tuples up to renaming and equal ground-instance sets) as the same program wrapped in dfs { } and as the reference interpreter; 'infinite': the same programs with always() put in front of a clause or a clause wrapped in loop { }, one in three with an additional clause guarded by never() (`[never(), q == 99]` or bare `never()`), which diverges without answers: each of the first 30 answers must have all its ground instances among the instances of the reference answers under the set reading (loop g = g, always = succeed, never = no answers); 'fixed': hand-written shapes (trivially true disjunct with pending later clauses, six clauses, always/loop prefixes). Distinct = distinct program text; non-trivial = at least one disjunction and at least one answer."
    }
    fn assumptions(&self) -> Vec<String> {
        vec!["reference: pvmon::refsem (depth-first list monad); for infinite streams only soundness of a 30-answer prefix is decided".into()]
    }
    fn floor(&self, tier: Tier) -> u64 {
        match tier {
            Tier::Quick => 2500,
            Tier::Thorough => 100_000,
        }
    }
    fn required_counters(&self) -> Vec<&'static str> {
        vec![
            "bfs_vs_dfs_compared", "bfs_vs_ref_compared", "infinite_prefix_answers_checked", "path_mplus_empty", "path_mplus_unit", "path_mplus_lazy", "path_mplus_cons", "path_bind_empty", "path_bind_unit", "path_bind_lazy", "path_bind_cons", "step_delay",
            "programs_with_trivially_true_disjunct",
        ]
    }
    fn run_case(&self, gen: &str, seed: u64, index: u64, _tier: Tier) -> CaseOut {
        let mut out = CaseOut::default();
        let mut rng = Rng::for_case(seed, gen, index);
        let mut infinite = gen == "infinite";
        let prog = match gen {
            "fixed" => {
                infinite = index == 3 || index == 4;
                fixed_program(index as usize)
            }
            _ => {
                let mut cfg = SearchCfg::default();
                cfg.nq = 1 + rng.below(2);
                let p = SearchGen::new(&mut rng, cfg).program();
                if infinite {
                    let mut done = false;
                    NEVER_Q.with(|c| c.set(p.qvars[0]));
                    let body: Vec<G> = p.body.iter().map(|g| infinitize(&mut rng, g, &mut done)).collect();
                    if !done {
                        out.count("skipped_no_disjunction", 1);
                        return out;
                    }
                    Program { rels: p.rels.clone(), qvars: p.qvars.clone(), body }
                } else {
                    p
                }
            }
        };
        fn true_disjunct(g: &G) -> bool {
            let here = match g {
                G::Cond(cs) | G::Conde(cs) => cs.iter().any(|c| c.iter().all(|x| matches!(x, G::Succeed))),
                _ => false,
            };
            here || g.clauses().iter().any(|c| c.iter().any(true_disjunct))
        }
        let has_disj = prog.body.iter().any(|g| g.has_kind("cond") || g.has_kind("conde") || g.has_kind("match"));
        let uni = universe(&prog, &[]);
        if infinite {
            let mut r = crate::refsem::Ref::new(&prog);
            r.set_reading = true;
            let rans: Vec<Ans> = match r.run() {
                Ok(a) => a.iter().map(Ans::from_ref).collect(),
                Err(_) => {
                    out.count("reference_gave_up", 1);
                    return out;
                }
            };
            let cfg = RunCfg { max_answers: 30, step_budget: 400_000, extra_next: 0, display: false };
            let real = run_query_prefix(&prog, &cfg);
            out.count("programs", 1);
            if let Some(p) = &real.panic {
                out.violate("M-panic", &format!("panic {} at {}", p.message, p.location), format!("panic '{}' at {}", p.message, p.location), format!("{}", prog));
                return out;
            }
            count_paths(&mut out, &real.paths);
            let mut ref_inst: BTreeSet<T> = BTreeSet::new();
            let mut ref_wide = false;
            for a in rans.iter() {
                match instances(a, &uni) {
                    Some(s) => ref_inst.extend(s),
                    None => ref_wide = true,
                }
            }
            for (i, a) in real.answers.iter().enumerate() {
                out.count("infinite_prefix_answers_checked", 1);
                let ok = match instances(a, &uni) {
                    Some(s) if !ref_wide => s.is_subset(&ref_inst),
                    _ => rans.iter().any(|r| crate::term::variants(&r.tuple, &a.tuple)),
                };
                if !ok {
                    out.violate("M-ref", "interleaving search produced an answer that is not an answer of the program", format!("answer #{} = {} has instances outside the reference answers {} (set reading)", i, a, show_answers(&rans)), format!("{}", prog));
                    break;
                }
            }
            // a finite stream must then be complete as well
            if real.ended && !real.budget_exceeded {
                out.count("infinite_lane_streams_that_ended", 1);
            }
            if has_disj && !real.answers.is_empty() {
                out.distinct.push(program_key(&prog));
            }
            if index % 499 == 1 || gen == "fixed" {
                out.sample = Some(sample_json(&prog, &real.answers, "first answers of an infinite stream; each checked against the set-reading reference"));
            }
        } else {
            let rans = match ref_answers(&prog, false) {
                Ok(a) => a,
                Err(_) => {
                    out.count("reference_gave_up", 1);
                    return out;
                }
            };
            if rans.len() > 400 {
                out.count("skipped_too_many_answers", 1);
                return out;
            }
            let cfg = RunCfg { max_answers: 2000, step_budget: 600_000, extra_next: 2, display: true };
            let real = run_query(&prog, &cfg);
            out.count("programs", 1);
            if !usable(&real, &mut out, &prog, "bfs query") {
                return out;
            }
            count_paths(&mut out, &real.paths);
            if prog.body.iter().any(true_disjunct) {
                out.count("programs_with_trivially_true_disjunct", 1);
            }
            out.count("answers", real.answers.len() as u64);
            out.count("bfs_vs_ref_compared", 1);
            let mut bad: Option<(String, String)> = None;
            if cut_at_cap(real.ended, real.answers.len(), true, rans.len()) {
                out.count("comparisons_skipped_answer_cap", 1);
                return out;
            }
            if let Cmp::Different(why) = compare_multisets(&real.answers, &rans, &uni) {
                let sig = if real.answers.len() < rans.len() { "interleaving search lost answers" } else if real.answers.len() > rans.len() { "interleaving search invented or duplicated answers" } else { "interleaving search answers differ from the reference" };
                bad = Some((sig.to_string(), format!("bfs vs reference: {} | bfs {} | reference {}", why, show_answers(&real.answers), show_answers(&rans))));
            }
            // DFS twin (only when the program has no BFS-only operator)
            let bfs_only = prog.body.iter().any(|g| g.has_kind("conde") || g.has_kind("loop") || g.has_kind("always"));
            if !bfs_only {
                let dprog = dfs_wrapped(&prog);
                let dreal = run_query(&dprog, &cfg);
                if usable(&dreal, &mut out, &dprog, "dfs query") {
                    out.count("bfs_vs_dfs_compared", 1);
                    if cut_at_cap(real.ended, real.answers.len(), dreal.ended, dreal.answers.len()) {
                        out.count("comparisons_skipped_answer_cap", 1);
                    } else if let Cmp::Different(why) = compare_multisets(&real.answers, &dreal.answers, &uni) {
                        if bad.is_none() {
                            bad = Some(("interleaving and depth-first search disagree on the answer multiset".to_string(), format!("bfs vs dfs: {} | bfs {} | dfs {}", why, show_answers(&real.answers), show_answers(&dreal.answers))));
                        }
                    }
                }
            }
            if let Some((sig, why)) = bad {
                let sig0 = sig.clone();
                let small = crate::shrink::shrink_program(
                    &prog,
                    &mut |cand: &Program| {
                        let r = match ref_answers(cand, false) {
                            Ok(a) => a,
                            Err(_) => return false,
                        };
                        let real = run_query(cand, &cfg);
                        if real.panic.is_some() || real.budget_exceeded {
                            return false;
                        }
                        let u = universe(cand, &[]);
                        let _ = &sig0;
                        matches!(compare_multisets(&real.answers, &r, &u), Cmp::Different(_))
                    },
                    300,
                );
                out.violate("M-ref", &sig, format!("{} || original program: {}", why, prog), format!("{}", small));
            }
            if has_disj && !rans.is_empty() {
                out.distinct.push(program_key(&prog));
            }
            if index % 1999 == 4 || (gen == "fixed" && index == 0) {
                out.sample = Some(sample_json(&prog, &real.answers, &format!("reference (depth-first order): {}", show_answers(&rans))));
            }
        }
        let mut seen = BTreeSet::new();
        out.violations.retain(|v| seen.insert(v.signature.clone()));
        out
    }
}
