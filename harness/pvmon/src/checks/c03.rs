//! C03 — answers are fully reified, closed, and carry their relevant constraints.
use super::common::*;
use crate::ast::*;
use crate::canon::*;
use crate::framework::*;
use crate::gen::*;
use crate::run::*;
use crate::term::{T, V};
use crate::util::Rng;
use std::collections::BTreeSet;

pub struct C03;

fn v(i: V) -> T {
    T::Var(i)
}

const FIXED: [&str; 8] = ["compound-nested", "hidden-in-constraint", "shared-across-qvars", "tail-var", "nested-compound", "wildcard", "two-constraints", "hidden-in-value"];

fn fixed_program(i: usize) -> Program {
    match i {
        // p == Pair(1, x), x != 3: p's constraints must include x != 3
        0 => Program::new(vec![0, 1], vec![G::Eq(v(0), T::pair(T::Int(1), v(1))), G::Diseq(v(1), T::Int(3))]),
        // |z| { q != z }: the constraint mentions the hidden z and must not be reported
        1 => Program::new(vec![0], vec![G::Fresh(vec![1], vec![G::Diseq(v(0), v(1))])]),
        // q = [a, b], r = [b, a]
        2 => Program::new(vec![0, 1], vec![G::Fresh(vec![2, 3], vec![G::Eq(v(0), T::list(vec![v(2), v(3)])), G::Eq(v(1), T::list(vec![v(3), v(2)])), G::Diseq(v(2), T::Int(1))])]),
        // variable in an improper tail
        3 => Program::new(vec![0, 1], vec![G::Eq(v(0), T::improper(vec![T::Int(1)], v(1))), G::Diseq(v(1), T::Nil)]),
        4 => Program::new(vec![0, 1], vec![G::Eq(v(0), T::Comp("Named", vec![T::list(vec![T::pair(v(1), T::Int(2))]), T::Int(1)])), G::Diseq(v(1), T::Char('a'))]),
        5 => Program::new(vec![0], vec![G::Diseq(v(0), T::list(vec![T::Any])), G::Eq(v(0), T::list(vec![T::Any]))]),
        6 => Program::new(vec![0, 1], vec![G::Diseq(v(0), T::Int(1)), G::Diseq(v(1), T::Int(2)), G::Diseq(T::list(vec![v(0), v(1)]), T::list(vec![T::Int(3), T::Int(4)]))]),
        _ => Program::new(vec![0], vec![G::Fresh(vec![1], vec![G::Diseq(v(0), T::list(vec![v(1), T::Int(1)])), G::Conde(vec![vec![G::Eq(v(1), T::Int(2))], vec![G::Succeed]])])]),
    }
}

fn cfg_for(gen: &str, rng: &mut Rng, tier: Tier) -> TreeCfg {
    let mut c = TreeCfg::default();
    c.nq = 1 + rng.below(3);
    c.compounds = rng.chance(2, 3);
    c.any = rng.chance(1, 3);
    c.max_goals = 5;
    match gen {
        "nested" => {
            c.compounds = true;
            c.depth = 3;
            c.hostile_diseq = false;
        }
        _ => {}
    }
    if tier == Tier::Thorough {
        c.max_goals = 6;
    }
    c
}

/// Programs biased towards free and constrained variables nested in lists, tails and compound
/// fields, shared across several query variables, with disequalities against hidden variables.
fn nested_program(rng: &mut Rng) -> Program {
    let nq = 2 + rng.below(2);
    let qvars: Vec<V> = (0..nq as V).collect();
    let nf = 2 + rng.below(3);
    let fresh: Vec<V> = (0..nf as V).map(|i| 10 + i).collect();
    let hidden: Vec<V> = vec![20, 21];
    let mut body = vec![];
    let atoms = atoms();
    let mut wrap = |rng: &mut Rng, x: T, depth: usize| -> T {
        let mut t = x;
        for _ in 0..depth {
            t = match rng.below(6) {
                0 => T::list(vec![t]),
                1 => T::list(vec![atoms[rng.below(atoms.len())].clone(), t]),
                2 => T::improper(vec![atoms[rng.below(2)].clone()], t),
                3 => T::pair(t, atoms[rng.below(2)].clone()),
                4 => T::Comp("Named", vec![atoms[rng.below(2)].clone(), t]),
                _ => T::Comp("Some", vec![t]),
            };
        }
        t
    };
    for q in qvars.iter() {
        let k = 1 + rng.below(3);
        let items: Vec<T> = (0..k)
            .map(|_| {
                let base = if rng.chance(3, 4) { T::Var(*rng.pick(&fresh)) } else { atoms[rng.below(atoms.len())].clone() };
                let d = rng.below(3);
                wrap(rng, base, d)
            })
            .collect();
        let t = if items.len() == 1 && rng.chance(1, 2) { items[0].clone() } else { T::list(items) };
        body.push(G::Eq(T::Var(*q), t));
    }
    let nd = 1 + rng.below(4);
    for _ in 0..nd {
        let a = T::Var(*rng.pick(&fresh));
        let b = match rng.below(9) {
            0 => T::Var(*rng.pick(&fresh)),
            1 => T::Var(*rng.pick(&hidden)),
            2 => T::list(vec![T::Var(*rng.pick(&hidden)), atoms[rng.below(2)].clone()]),
            3 => T::pair(T::Var(*rng.pick(&fresh)), atoms[rng.below(2)].clone()),
            // hidden variable as the open tail of an improper list, behind one or two elements
            4 => T::improper(vec![atoms[rng.below(2)].clone()], T::Var(*rng.pick(&hidden))),
            5 => T::improper(vec![T::Var(*rng.pick(&fresh)), atoms[rng.below(2)].clone()], T::Var(*rng.pick(&hidden))),
            // hidden variable deep inside a compound field
            6 => T::Comp("Named", vec![atoms[rng.below(2)].clone(), T::list(vec![T::Comp("Some", vec![T::Var(*rng.pick(&hidden))])])]),
            _ => atoms[rng.below(atoms.len())].clone(),
        };
        if rng.chance(1, 4) {
            let c = T::Var(*rng.pick(&fresh));
            let d = atoms[rng.below(2)].clone();
            body.push(G::Diseq(T::list(vec![a, c]), T::list(vec![b, d])));
        } else {
            body.push(G::Diseq(a, b));
        }
    }
    if rng.chance(1, 3) {
        body.push(G::Eq(T::Var(*rng.pick(&fresh)), atoms[rng.below(2)].clone()));
    }
    if rng.chance(1, 3) {
        body.push(G::Eq(T::Var(*rng.pick(&hidden)), atoms[rng.below(2)].clone()));
    }
    rng.shuffle(&mut body);
    let mut all = fresh.clone();
    all.extend(hidden.iter().copied());
    Program::new(qvars, vec![G::Fresh(all, body)])
}

impl Check for C03 {
    fn id(&self) -> &'static str {
        "C03"
    }
    fn gens(&self) -> Vec<GenSpec> {
        vec![
            GenSpec { name: "nested", quick: 6000, thorough: 200_000 },
            GenSpec { name: "tree", quick: 4000, thorough: 100_000 },
            GenSpec { name: "fixed", quick: FIXED.len() as u64, thorough: FIXED.len() as u64 },
        ]
    }
    fn rule(&self) -> &'static str {
        "'nested': 2-3 query variables bound to terms that put 2-4 shared fresh variables inside nested lists, improper tails and compound fields (Pair, Named, Some) to depth 0-2, with 1-4 disequalities between those variables, atoms, hidden variables and terms containing hidden variables, in random order; 'tree': the C02 generator with compounds and wildcards; 'fixed': hand-written programs. On every reported answer the structural monitor checks: every variable in an answer term is named '_'; every reported constraint mentions only variables occurring in the answer's query terms; per query variable, LResult::constraints() contains every reported constraint that has one of its reified variables (found by the harness's own deep walk through lists and CompoundObject::children) as an operand, contains nothing that mentions none of them, and is_constrained() agrees; the multiset of answer tuples is variant-equal to the reference's (sharing pattern across query variables). Distinct = distinct program text; non-trivial = at least one answer with a free variable in it."
    }
    fn assumptions(&self) -> Vec<String> {
        vec![
            "'a constraint on a variable' is read as: the variable is a key of the disequality or a value that is itself a variable (what Constraint::operands reports); constraints that mention the variable only inside a value term are allowed but not demanded from constraints()".into(),
            "sharing is checked against pvmon::refsem by variant equality of the answer tuples".into(),
        ]
    }
    fn floor(&self, tier: Tier) -> u64 {
        match tier {
            Tier::Quick => 2000,
            Tier::Thorough => 50_000,
        }
    }
    fn required_counters(&self) -> Vec<&'static str> {
        vec!["answers_with_constraints", "answers_with_free_vars_in_compounds", "constraints_checked", "relevant_sets_checked", "tuples_compared_with_reference"]
    }
    fn run_case(&self, gen: &str, seed: u64, index: u64, tier: Tier) -> CaseOut {
        let mut out = CaseOut::default();
        let mut rng = Rng::for_case(seed, gen, index);
        let prog = match gen {
            "fixed" => fixed_program(index as usize),
            "nested" => nested_program(&mut rng),
            _ => {
                let cfg = cfg_for(gen, &mut rng, tier);
                TreeGen::new(&mut rng, cfg).program()
            }
        };
        let cfg = RunCfg::default();
        let real = run_query(&prog, &cfg);
        out.count("programs", 1);
        if !usable(&real, &mut out, &prog, "query") {
            return out;
        }
        out.count("answers", real.answers.len() as u64);
        let mut any_free = false;
        for raw in real.raw.iter() {
            out.count("constraints_checked", raw.cons.len() as u64);
            out.count("relevant_sets_checked", raw.terms.len() as u64);
            if !raw.cons.is_empty() {
                out.count("answers_with_constraints", 1);
            }
            if !raw.var_names.is_empty() {
                any_free = true;
            }
            fn has_var_in_comp(t: &T, inside: bool) -> bool {
                match t {
                    T::Var(_) => inside,
                    T::Cons(h, tl) => has_var_in_comp(h, inside) || has_var_in_comp(tl, inside),
                    T::Comp(_, fs) => fs.iter().any(|f| has_var_in_comp(f, true)),
                    _ => false,
                }
            }
            if raw.terms.iter().any(|t| has_var_in_comp(t, false)) {
                out.count("answers_with_free_vars_in_compounds", 1);
            }
            for (sig, msg) in c03_monitor(raw) {
                out.violate("M-c03", &sig, format!("{} | answer: {}", msg, raw.display), format!("{}", prog));
            }
        }
        // sharing pattern: tuples variant-equal to the reference's
        match ref_answers(&prog, false) {
            Ok(rans) => {
                out.count("tuples_compared_with_reference", 1);
                let a = tuple_multiset(&real.answers);
                let b = tuple_multiset(&rans);
                if a != b {
                    out.violate("M-ref", "answer tuples (sharing of reified variables) differ from the reference", format!("real {} vs reference {}", show_terms(&a), show_terms(&b)), format!("{}", prog));
                } else {
                    // constraints as instance sets too (cheap here)
                    let uni = universe(&prog, &[]);
                    if cut_at_cap(real.ended, real.answers.len(), true, rans.len()) {
                        out.count("comparisons_skipped_answer_cap", 1);
                    } else if let Cmp::Different(why) = compare_multisets(&real.answers, &rans, &uni) {
                        out.violate("M-ref", "answers differ from the reference semantics", format!("{} | real {} | reference {}", why, show_answers(&real.answers), show_answers(&rans)), format!("{}", prog));
                    }
                }
            }
            Err(e) => out.inconclusive.push(format!("reference: {:?}", e)),
        }
        if any_free {
            out.distinct.push(program_key(&prog));
        }
        if index % 997 == 3 || (gen == "fixed" && index == 0) {
            out.sample = Some(sample_json(&prog, &real.answers, &format!("display: {}", real.raw.iter().map(|r| r.display.clone()).collect::<Vec<_>>().join(" / "))));
        }
        let mut seen = BTreeSet::new();
        out.violations.retain(|v| seen.insert(v.signature.clone()));
        out
    }
}
