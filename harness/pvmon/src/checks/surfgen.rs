//! Generators for the surface-syntax lane (programs inside the grammar the macros accept).
use crate::ast::*;
use crate::gen::*;
use crate::term::{T, V};
use crate::util::Rng;

pub fn lit(rng: &mut Rng) -> T {
    match rng.below(8) {
        0 | 1 | 2 => T::Int(rng.range(0, 3)),
        3 => T::Bool(rng.chance(1, 2)),
        4 => T::Char(['a', 'b'][rng.below(2)]),
        5 => T::s(["s", "hello world", ""][rng.below(3)]),
        _ => T::Int(rng.range(1, 2)),
    }
}

/// Tree term in surface syntax (no compounds inside): literals of all kinds, variables, `_`,
/// nested proper and improper lists.
pub fn tree_term(rng: &mut Rng, scope: &[V], depth: usize, allow_any: bool) -> T {
    let r = rng.below(100);
    if depth == 0 || r < 40 {
        if !scope.is_empty() && rng.chance(1, 2) {
            return T::Var(*rng.pick(scope));
        }
        if allow_any && rng.chance(1, 8) {
            return T::Any;
        }
        return lit(rng);
    }
    let n = rng.below(4);
    let items: Vec<T> = (0..n).map(|_| tree_term(rng, scope, depth - 1, allow_any)).collect();
    if n > 0 && rng.chance(1, 3) {
        let tail = match rng.below(4) {
            0 if allow_any => T::Any,
            1 => lit(rng),
            2 => tree_term(rng, scope, depth - 1, allow_any),
            _ => {
                if scope.is_empty() {
                    lit(rng)
                } else {
                    T::Var(*rng.pick(scope))
                }
            }
        };
        T::improper(items, tail)
    } else {
        T::list(items)
    }
}

/// A pattern: fresh pattern variables are taken from `pvars` (may repeat within the pattern).
pub fn pattern(rng: &mut Rng, pvars: &[V], depth: usize) -> T {
    let r = rng.below(100);
    if depth == 0 || r < 35 {
        return match rng.below(6) {
            0 | 1 | 2 => T::Var(*rng.pick(pvars)),
            3 => T::Any,
            4 => T::Nil,
            _ => lit(rng),
        };
    }
    let n = 1 + rng.below(3);
    let items: Vec<T> = (0..n).map(|_| pattern(rng, pvars, depth - 1)).collect();
    if rng.chance(2, 5) {
        let tail = match rng.below(4) {
            0 => T::Any,
            1 => pattern(rng, pvars, depth - 1),
            _ => T::Var(*rng.pick(pvars)),
        };
        T::improper(items, tail)
    } else {
        T::list(items)
    }
}

pub struct MatchGen<'a> {
    pub rng: &'a mut Rng,
    pub next_var: V,
}

impl<'a> MatchGen<'a> {
    fn nv(&mut self) -> V {
        let v = self.next_var;
        self.next_var += 1;
        v
    }

    fn body_goal(&mut self, scope: &[V], depth: usize) -> G {
        let a = tree_term(self.rng, scope, 1, false);
        let b = tree_term(self.rng, scope, 2, true);
        match self.rng.below(8) {
            0 | 1 | 2 => G::Eq(if scope.is_empty() { a } else { T::Var(*self.rng.pick(scope)) }, b),
            3 => G::Diseq(a, b),
            4 if depth > 0 => self.match_goal(scope, depth - 1),
            5 => G::Conde(vec![vec![G::Eq(a.clone(), lit(self.rng))], vec![G::Eq(a, lit(self.rng))]]),
            6 => G::Call(Rel::Member, vec![a, T::list(vec![lit(self.rng), lit(self.rng), T::Int(1)])]),
            _ => G::Succeed,
        }
    }

    pub fn match_goal(&mut self, scope: &[V], depth: usize) -> G {
        let kind = match self.rng.below(6) {
            0 | 1 | 2 => MatchKind::Match,
            3 => MatchKind::E,
            4 => MatchKind::A,
            _ => MatchKind::U,
        };
        // scrutinee: a variable, a literal or a list expression (one token tree)
        let scrut = match self.rng.below(5) {
            0 | 1 if !scope.is_empty() => T::Var(*self.rng.pick(scope)),
            2 => lit(self.rng),
            _ => {
                let n = self.rng.below(4);
                let items: Vec<T> = (0..n).map(|_| tree_term(self.rng, scope, 1, false)).collect();
                if n > 0 && self.rng.chance(1, 4) && !scope.is_empty() {
                    T::improper(items, T::Var(*self.rng.pick(scope)))
                } else {
                    T::list(items)
                }
            }
        };
        let narms = 1 + self.rng.below(4);
        let mut arms = vec![];
        for _ in 0..narms {
            let pv: Vec<V> = (0..1 + self.rng.below(3)).map(|_| self.nv()).collect();
            let nalt = if self.rng.chance(1, 4) { 2 } else { 1 };
            let mut pats = vec![];
            for _ in 0..nalt {
                let p = if self.rng.chance(1, 8) {
                    // a compound pattern at the top
                    T::pair(pattern(self.rng, &pv, 1), pattern(self.rng, &pv, 1))
                } else {
                    {
                        let d = 2 + self.rng.below(2);
                        pattern(self.rng, &pv, d)
                    }
                };
                pats.push(p);
            }
            // the body may use only the pattern variables that occur in EVERY alternative
            let usable: Vec<V> = pv.iter().copied().filter(|v| pats.iter().all(|p| p.vars().contains(v))).collect();
            let mut inner: Vec<V> = scope.to_vec();
            inner.extend(usable.iter().copied());
            let nb = match self.rng.below(6) {
                0 => 0,
                1 | 2 | 3 => 1,
                _ => 2,
            };
            let mut body: Vec<G> = (0..nb).map(|_| self.body_goal(&inner, depth)).collect();
            // make the pattern variables observable through a query variable
            if !usable.is_empty() && !scope.is_empty() && self.rng.chance(2, 3) {
                body.push(G::Eq(T::Var(scope[0]), T::list(usable.iter().map(|v| T::Var(*v)).collect())));
            }
            arms.push(Arm { pats, body });
        }
        G::Match(kind, scrut, arms)
    }

    /// `|outer...| { bindings of the scrutinee variables, match ... }` with 2 query variables.
    pub fn program(&mut self) -> Program {
        let q: Vec<V> = vec![self.nv(), self.nv()];
        let inner: Vec<V> = vec![self.nv(), self.nv()];
        let mut scope = q.clone();
        scope.extend(inner.iter().copied());
        let mut body = vec![];
        for x in inner.iter() {
            if self.rng.chance(3, 4) {
                let t = tree_term(self.rng, &[], 2, false);
                body.push(G::Eq(T::Var(*x), t));
            }
        }
        if self.rng.chance(1, 2) {
            body.push(G::Eq(T::Var(q[1]), tree_term(self.rng, &inner, 2, false)));
        }
        let m = self.match_goal(&scope, 1);
        // the match goal is placed among the bindings (scrutinee bound before or after)
        let pos = self.rng.below(body.len() + 1);
        body.insert(pos, m);
        // compound scrutinee values only make sense with compound patterns: bind one variable so
        if self.rng.chance(1, 8) {
            body.insert(0, G::Eq(T::Var(inner[0]), T::pair(lit(self.rng), tree_term(self.rng, &[], 1, false))));
        }
        Program::new(q, vec![G::Fresh(inner, body)])
    }
}

/// Grammar-coverage programs for C14.
pub fn grammar_program(rng: &mut Rng) -> (Program, bool) {
    let nq = 1 + rng.below(4);
    let mut q: Vec<V> = (0..nq as V).collect();
    let mut next: V = nq as V;
    let scope = q.clone();
    let mut infinite = false;
    fn goal(rng: &mut Rng, scope: &[V], next: &mut V, depth: usize, infinite: &mut bool, top: bool) -> G {
        let a = tree_term(rng, scope, 2, true);
        let b = tree_term(rng, scope, 2, true);
        let r = rng.below(100);
        if depth > 0 && r < 12 {
            let n = 2 + rng.below(3);
            return G::Conde((0..n).map(|_| (0..1 + rng.below(2)).map(|_| goal(rng, scope, next, depth - 1, infinite, false)).collect()).collect());
        }
        if depth > 0 && r < 24 {
            let vs: Vec<V> = (0..1 + rng.below(2)).map(|_| {
                *next += 1;
                *next - 1
            }).collect();
            let mut inner = scope.to_vec();
            inner.extend(vs.iter().copied());
            return G::Fresh(vs, (0..1 + rng.below(3)).map(|_| goal(rng, &inner, next, depth - 1, infinite, false)).collect());
        }
        if depth > 0 && r < 32 {
            return G::Conj((0..1 + rng.below(3)).map(|_| goal(rng, scope, next, depth - 1, infinite, false)).collect());
        }
        if depth > 0 && r < 38 {
            // `closure { }` is a `move` closure: it takes ownership of every variable it mentions,
            // so a well-formed program hands it variables of its own (aliases of outer ones) and
            // does not use them afterwards.
            let k = 1 + rng.below(2);
            let vs: Vec<V> = (0..k).map(|_| {
                *next += 1;
                *next - 1
            }).collect();
            let mut gs: Vec<G> = vec![];
            for v in vs.iter() {
                if !scope.is_empty() {
                    gs.push(G::Eq(T::Var(*v), T::Var(*rng.pick(scope))));
                }
            }
            let body: Vec<G> = (0..1 + rng.below(3)).map(|_| goal(rng, &vs, next, 0, infinite, false)).collect();
            gs.push(G::Closure(body));
            return G::Fresh(vs, gs);
        }
        if depth > 0 && r >= 38 && r < 44 {
            // committed choice written in surface syntax: bracketed clauses `[head, rest...]` whose
            // head may be the literal `true` / `false` (heads are deterministic, so the soft-cut
            // reference is unambiguous; the rest goals may have several answers)
            let nc = 1 + rng.below(3);
            let mut cs = vec![];
            for _ in 0..nc {
                let head = match rng.below(6) {
                    0 | 1 => G::Succeed,
                    2 => G::Fail,
                    3 => G::Eq(lit(rng), lit(rng)),
                    _ => {
                        if scope.is_empty() {
                            G::Succeed
                        } else {
                            G::Eq(T::Var(*rng.pick(scope)), lit(rng))
                        }
                    }
                };
                let mut c = vec![head];
                for _ in 0..rng.below(3) {
                    let x = if scope.is_empty() { lit(rng) } else { T::Var(*rng.pick(scope)) };
                    c.push(match rng.below(4) {
                        0 | 1 => G::Call(Rel::Member, vec![x, T::list((0..2 + rng.below(2)).map(|_| lit(rng)).collect())]),
                        2 => G::Eq(x, lit(rng)),
                        _ => G::Diseq(x, lit(rng)),
                    });
                }
                cs.push(c);
            }
            return if rng.chance(1, 2) { G::Conda(cs) } else { G::Condu(cs) };
        }
        if top && depth > 0 && r >= 44 && r < 48 && !*infinite {
            *infinite = true;
            return G::Loop((0..1 + rng.below(2)).map(|_| vec![goal(rng, scope, next, 0, &mut false, false)]).collect());
        }
        if r < 52 {
            let l = T::list((0..rng.below(4)).map(|_| lit(rng)).collect());
            return match rng.below(4) {
                0 => G::Call(Rel::Member, vec![a, l]),
                1 => G::Call(Rel::Append, vec![a, b, l]),
                2 => G::Call(Rel::Cons, vec![a, b, tree_term(rng, scope, 1, false)]),
                _ => G::Call(Rel::First, vec![l, a]),
            };
        }
        if r < 57 {
            return if rng.chance(1, 2) { G::Succeed } else { G::Fail };
        }
        if r < 63 {
            // compound constructors at the top of an argument
            let c = match rng.below(3) {
                0 => T::pair(a.clone(), tree_term(rng, scope, 1, true)),
                1 => T::Comp("", vec![a.clone(), tree_term(rng, scope, 1, true)]),
                _ => T::Comp("Triple", vec![a.clone(), lit(rng), tree_term(rng, scope, 1, false)]),
            };
            let lhs = if scope.is_empty() { b } else { T::Var(*rng.pick(scope)) };
            return if rng.chance(3, 4) { G::Eq(lhs, c) } else { G::Diseq(c, lhs) };
        }
        if r < 78 {
            if !scope.is_empty() && rng.chance(1, 3) {
                // a variable bound to a term written with `_`, and a disequality against an instance
                // of that term: the constraint that remains talks about the anonymous variable
                let x = T::Var(*rng.pick(scope));
                let shape = tree_term(rng, scope, 2, true);
                let shape = if shape.has_any() { shape } else { T::list(vec![shape, T::Any]) };
                let inst = shape.map_leaves(&mut |t| match t {
                    T::Any | T::Var(_) => lit(rng),
                    other => other.clone(),
                });
                return G::Conj(vec![G::Eq(x.clone(), shape), G::Diseq(x, inst)]);
            }
            return G::Diseq(a, b);
        }
        if !scope.is_empty() && rng.chance(1, 2) {
            G::Eq(T::Var(*rng.pick(scope)), b)
        } else {
            G::Eq(a, b)
        }
    }
    let n = 1 + rng.below(4);
    let body: Vec<G> = (0..n).map(|_| goal(rng, &scope, &mut next, 2, &mut infinite, true)).collect();
    // declaration order of the query variables differs from their numeric / use order
    rng.shuffle(&mut q);
    (Program::new(q, body), infinite)
}

/// C15: programs whose variables live in many nested / sibling scopes and in recursive relations
/// that introduce fresh variables on every unfolding.
pub fn scope_program(rng: &mut Rng) -> Program {
    // relation 0: rel0(l, out): out is the list of pairs [e, f] with f fresh per element, all f equal to a constant c
    // relation 1: rel1(l, n): n is l's length in Peano lists, built through fresh variables
    let (l, out, h, t, o2, f) = (900, 901, 902, 903, 904, 905);
    let c = lit(rng);
    let rel0 = RelDef {
        params: vec![l, out],
        // (`cond`, the mode-inferred disjunction: the relation is generic over the goal kind)
        body: vec![G::Cond(vec![
            vec![G::Eq(T::Var(l), T::Nil), G::Eq(T::Var(out), T::Nil)],
            vec![G::Fresh(
                vec![h, t, o2, f],
                vec![G::Eq(T::Var(l), T::cons(T::Var(h), T::Var(t))), G::Eq(T::Var(f), c), G::Eq(T::Var(out), T::cons(T::list(vec![T::Var(h), T::Var(f)]), T::Var(o2))), G::RecCall(0, vec![T::Var(t), T::Var(o2)])],
            )],
        ])],
    };
    let (l1, n1, t1, m1) = (910, 911, 912, 913);
    let rel1 = RelDef {
        params: vec![l1, n1],
        body: vec![G::Match(
            MatchKind::Match,
            T::Var(l1),
            vec![
                Arm { pats: vec![T::Nil], body: vec![G::Eq(T::Var(n1), T::Nil)] },
                Arm { pats: vec![T::improper(vec![T::Any], T::Var(t1))], body: vec![G::Fresh(vec![m1], vec![G::Eq(T::Var(n1), T::list(vec![T::Var(m1)])), G::RecCall(1, vec![T::Var(t1), T::Var(m1)])])] },
            ],
        )],
    };
    let mut g = SearchGen::new(rng, SearchCfg { nq: 2, max_goals: 3, nesting: 3, recursive: false, ..SearchCfg::default() });
    let mut p = g.program();
    let rng = g.rng;
    let list = T::list((0..rng.below(4)).map(|_| lit(rng)).collect());
    let q0 = T::Var(p.qvars[0]);
    let q1 = T::Var(p.qvars[1]);
    let extra = match rng.below(4) {
        0 => vec![G::RecCall(0, vec![list, q0])],
        1 => vec![G::RecCall(1, vec![list, q0])],
        2 => {
            // the same relation called twice in one conjunction
            let l2 = T::list((0..rng.below(3)).map(|_| lit(rng)).collect());
            vec![G::RecCall(0, vec![list, q0]), G::RecCall(0, vec![l2, q1])]
        }
        _ => vec![G::RecCall(1, vec![list.clone(), q0]), G::RecCall(0, vec![list, q1])],
    };
    for e in extra {
        let pos = rng.below(p.body.len() + 1);
        p.body.insert(pos, e);
    }
    p.rels = vec![rel0, rel1];
    p
}

/// C14: committed choice written in surface syntax as the main goal of the program: bracketed
/// clauses `[head, rest...]`, heads incl. the literals `true` / `false` (deterministic heads, so
/// the soft-cut reference is unambiguous), multi-answer rest goals, onceo.
pub fn commit_surface_program(rng: &mut Rng) -> Program {
    let q: Vec<V> = vec![0, 1];
    let var = |rng: &mut Rng| T::Var(q[rng.below(2)]);
    let mut body = vec![];
    if rng.chance(1, 3) {
        body.push(G::Eq(var(rng), lit(rng)));
    }
    let nc = 1 + rng.below(3);
    let mut cs = vec![];
    for _ in 0..nc {
        let head = match rng.below(6) {
            0 | 1 | 2 => G::Succeed,
            3 => G::Fail,
            4 => G::Eq(lit(rng), lit(rng)),
            _ => G::Eq(var(rng), lit(rng)),
        };
        let mut c = vec![head];
        for _ in 0..rng.below(3) {
            let x = var(rng);
            c.push(match rng.below(5) {
                0 | 1 | 2 => G::Call(Rel::Member, vec![x, T::list((0..2 + rng.below(2)).map(|_| lit(rng)).collect())]),
                3 => G::Eq(x, lit(rng)),
                _ => G::Diseq(x, lit(rng)),
            });
        }
        cs.push(c);
    }
    body.push(match rng.below(5) {
        0 | 1 => G::Conda(cs),
        2 | 3 => G::Condu(cs),
        _ => G::Onceo(vec![vec![G::Call(Rel::Member, vec![var(rng), T::list(vec![lit(rng), lit(rng), lit(rng)])])], vec![G::Succeed]]),
    });
    if rng.chance(1, 3) {
        body.push(G::Diseq(var(rng), lit(rng)));
    }
    Program::new(q, body)
}
