//! C07 — interleaving disjunction is fair and productive (bounded-progress restatement).
use super::common::*;
use super::search::*;
use crate::ast::*;
use crate::canon::*;
use crate::framework::*;
use crate::run::*;
use crate::term::{T, V};
use crate::util::{Json, Rng};
use std::collections::BTreeSet;

pub struct C07;

fn v(i: V) -> T {
    T::Var(i)
}

const M: usize = 3; // awaited answers per branch
const S_ALONE: u64 = 6_000; // a branch creates an obligation only if it yields within this many steps alone

/// Generated relations used by the branches:
///  rel0(x): x is a list of 1s (infinite producer through a recursive closure with a fresh variable)
///  rel1(x): left-recursive silent diverger  rel1(x) :- rel1(x), x == 1
///  rel2():  pause-only silent diverger      rel2() :- rel2()   (closure around a single goal)
///  rel3(x): diverger through fresh          rel3(x) :- |y| rel3(y)
fn rels() -> Vec<RelDef> {
    vec![
        RelDef { params: vec![900], body: vec![G::Cond(vec![vec![G::Eq(v(900), T::Nil)], vec![G::Fresh(vec![901], vec![G::Eq(v(900), T::cons(T::Int(1), v(901))), G::RecCall(0, vec![v(901)])])]])] },
        RelDef { params: vec![910], body: vec![G::RecCall(1, vec![v(910)]), G::Eq(v(910), T::Int(1))] },
        RelDef { params: vec![], body: vec![G::RecCall(2, vec![])] },
        RelDef { params: vec![930], body: vec![G::Fresh(vec![931], vec![G::RecCall(3, vec![v(931)])])] },
    ]
}

#[derive(Clone, Debug)]
struct Branch {
    goals: Vec<G>,
    kind: &'static str,
}

fn branch(rng: &mut Rng, q: V, fresh: &mut V) -> Branch {
    let c = T::Int(rng.range(1, 9));
    match rng.below(18) {
        17 => Branch { goals: vec![], kind: "finite-empty" },
        15 => Branch { goals: vec![G::Dfs(vec![vec![G::RecCall(3, vec![v(q)])]])], kind: "diverger-dfs-block" },
        16 => Branch { goals: vec![G::Eq(v(q), c), G::Dfs(vec![vec![G::RecCall(1, vec![v(q)])]])], kind: "diverger-dfs-block-last" },
        13 => Branch { goals: vec![G::Fail], kind: "finite-false" },
        14 => Branch { goals: vec![G::Eq(v(q), c), G::Fail], kind: "finite-false-conj" },
        0 => Branch { goals: vec![G::Loop(vec![vec![G::Eq(v(q), c)]])], kind: "producer-loop" },
        1 => Branch { goals: vec![G::Always, G::Eq(v(q), c)], kind: "producer-always" },
        2 => Branch { goals: vec![G::RecCall(0, vec![v(q)])], kind: "producer-closure" },
        3 => {
            let a = *fresh;
            let b = *fresh + 1;
            *fresh += 2;
            Branch { goals: vec![G::Fresh(vec![a, b], vec![G::Call(Rel::Append, vec![v(a), v(b), v(q)])])], kind: "producer-append" }
        }
        4 => Branch { goals: vec![G::Never], kind: "diverger-never" },
        5 => Branch { goals: vec![G::RecCall(1, vec![v(q)])], kind: "diverger-leftrec" },
        6 => Branch { goals: vec![G::RecCall(2, vec![])], kind: "diverger-pause-only" },
        7 => Branch { goals: vec![G::RecCall(3, vec![v(q)])], kind: "diverger-fresh" },
        8 => Branch { goals: vec![G::Never, G::Eq(v(q), c)], kind: "diverger-never-conj" },
        9 | 10 => Branch { goals: vec![G::Eq(v(q), c)], kind: "finite-eq" },
        11 => Branch { goals: vec![G::Call(Rel::Member, vec![v(q), T::list((0..2 + rng.below(6)).map(|k| T::Int(10 + k as i64)).collect())])], kind: "finite-member" },
        _ => Branch { goals: vec![G::Loop(vec![vec![G::Call(Rel::Member, vec![v(q), T::list(vec![T::Int(20), T::Int(21)])])]])], kind: "producer-loop-member" },
    }
}

/// Combine branch clause lists into one disjunction goal of the given operator shape.
fn disjunction(rng: &mut Rng, clauses: Vec<Vec<G>>, shape: usize, fresh: &mut V) -> G {
    match shape {
        0 => G::Conde(clauses),
        1 => {
            // match with wildcard patterns: every arm matches, so it is a plain disjunction
            let p = *fresh;
            *fresh += 1;
            let arms = clauses.into_iter().map(|c| Arm { pats: vec![if rng.chance(1, 2) { T::Any } else { T::Var(p) }], body: c }).collect();
            G::Match(MatchKind::Match, T::Int(0), arms)
        }
        _ => G::Match(MatchKind::E, T::list(vec![T::Int(0)]), clauses.into_iter().map(|c| Arm { pats: vec![T::improper(vec![T::Any], T::Any)], body: c }).collect()),
    }
}

impl Check for C07 {
    fn id(&self) -> &'static str {
        "C07"
    }
    fn gens(&self) -> Vec<GenSpec> {
        vec![GenSpec { name: "fair", quick: 15_000, thorough: 1_000_000 }]
    }
    fn rule(&self) -> &'static str {
        "Disjunctions of 2-4 branches built with conde, match (wildcard arms) or matche, at top level, after a conjunction prefix with 1-2 answers, or nested as a branch of another disjunction (depth 2). Branches: infinite producers (loop { q == c }, [always(), q == c], a recursive closure generating lists through a fresh variable, append with fresh arguments, loop over member), silent divergers (never(), [never(), q == c], a left-recursive closure, a closure that only calls itself, a closure that recurses through a fresh block, and a bare depth-first block `dfs { <diverging relation> }` as the only or the last goal of a branch, so that a depth-first stream sits directly under the interleaving mplus) and finite goals (q == c, member over 2-7 elements, the literal false alone or at the end of a conjunction, which folds the branch to a static Fail, and the EMPTY clause `[]`, which succeeds once), in every position. Bounded-progress oracle in engine steps (hook H1, logical time): every branch is first run alone from the same prefix; if it yields its j-th answer (j <= 3) within s <= 6000 engine steps, the whole disjunction must yield that answer (as a multiset over all branches, tuples up to renaming) within F = min(10^6, 64 * 2^(k*d) * (s_max + 16)) engine steps, k = number of branches, d = nesting depth. Distinct = distinct program text; non-trivial = at least one branch with an obligation AND at least one infinite or diverging sibling."
    }
    fn assumptions(&self) -> Vec<String> {
        vec![
            "unbounded 'eventually' is decided only as bounded progress within F engine steps; F is a fixed formula with two to three orders of magnitude of margin over the measured need of the unchanged engine".into(),
            "tree goals only, so step counts are deterministic".into(),
        ]
    }
    fn floor(&self, tier: Tier) -> u64 {
        match tier {
            Tier::Quick => 6000,
            Tier::Thorough => 300_000,
        }
    }
    fn required_counters(&self) -> Vec<&'static str> {
        vec!["obligations_met", "disjunctions_with_silent_diverger", "disjunctions_with_infinite_producer", "nested_disjunctions", "shape_conde", "shape_match", "shape_matche", "kind_diverger-pause-only", "kind_diverger-leftrec", "kind_diverger-never", "kind_diverger-dfs-block", "kind_diverger-dfs-block-last", "path_mplus_lazy", "path_mplus_cons"]
    }
    fn run_case(&self, gen: &str, seed: u64, index: u64, _tier: Tier) -> CaseOut {
        let mut out = CaseOut::default();
        let mut rng = Rng::for_case(seed, gen, index);
        let q: V = 0;
        let mut fresh: V = 10;
        let k = 2 + rng.below(3);
        let branches: Vec<Branch> = (0..k).map(|_| branch(&mut rng, q, &mut fresh)).collect();
        // conjunction prefix
        let prefix: Vec<G> = match rng.below(4) {
            0 => vec![G::Call(Rel::Member, vec![v(1), T::list(vec![T::Int(1), T::Int(2)])])],
            1 => vec![G::Eq(v(1), T::Int(7))],
            _ => vec![],
        };
        let shape = rng.below(3);
        let nested = rng.chance(1, 3);
        let d = if nested { 2 } else { 1 };
        // the disjunction under test
        let clauses: Vec<Vec<G>> = branches.iter().map(|b| b.goals.clone()).collect();
        let disj = if nested && k >= 3 {
            // first two branches form an inner disjunction which is one branch of the outer one
            let inner_shape = rng.below(3);
            let inner = disjunction(&mut rng, clauses[..2].to_vec(), inner_shape, &mut fresh);
            let mut outer = vec![vec![inner]];
            outer.extend(clauses[2..].iter().cloned());
            if rng.chance(1, 2) {
                outer.reverse();
            }
            disjunction(&mut rng, outer, shape, &mut fresh)
        } else {
            disjunction(&mut rng, clauses.clone(), shape, &mut fresh)
        };
        let mk = |body: Vec<G>| -> Program {
            let mut b = prefix.clone();
            b.extend(body);
            Program { rels: rels(), qvars: vec![0, 1], body: b }
        };
        let whole = mk(vec![disj]);
        // obligations from each branch alone
        let mut awaited: Vec<T> = vec![];
        let mut s_max: u64 = 0;
        let mut any_obligation = false;
        for b in branches.iter() {
            let alone = mk(b.goals.clone());
            let mut got: Vec<(T, u64)> = vec![];
            let r = run_query_until(&alone, S_ALONE, M, &mut |a: &Ans, steps: u64| {
                got.push((a.tuple.clone(), steps));
                false
            });
            if let Some(p) = &r.panic {
                out.violate("M-panic", &format!("panic {} at {}", p.message, p.location), format!("branch alone: panic '{}' at {}", p.message, p.location), format!("{}", alone));
                return out;
            }
            out.count(&format!("kind_{}", b.kind), 1);
            for (t, s) in got {
                let mut m = std::collections::BTreeMap::new();
                awaited.push(t.rename_with(&mut m));
                s_max = s_max.max(s);
                any_obligation = true;
            }
        }
        out.count("programs", 1);
        out.count(["shape_conde", "shape_match", "shape_matche"][shape], 1);
        if nested && k >= 3 {
            out.count("nested_disjunctions", 1);
        }
        let has_div = branches.iter().any(|b| b.kind.starts_with("diverger"));
        let has_inf = branches.iter().any(|b| b.kind.starts_with("producer"));
        if has_div {
            out.count("disjunctions_with_silent_diverger", 1);
        }
        if has_inf {
            out.count("disjunctions_with_infinite_producer", 1);
        }
        if !any_obligation {
            out.count("no_obligation", 1);
            return out;
        }
        // capped at 10^6 steps: three orders of magnitude above what the unchanged engine needs for
        // any generated case, and it keeps a run against a starving engine from taking hours
        let f = (64u64 * (1u64 << (k * d).min(20)) * (s_max + 16)).min(1_000_000);
        awaited.sort();
        let mut remaining = awaited.clone();
        let mut produced = 0u64;
        let r = run_query_until(&whole, f, 400, &mut |a: &Ans, _steps: u64| {
            produced += 1;
            let mut m = std::collections::BTreeMap::new();
            let t = a.tuple.rename_with(&mut m);
            if let Some(pos) = remaining.iter().position(|x| *x == t) {
                remaining.remove(pos);
            }
            remaining.is_empty()
        });
        count_paths(&mut out, &r.paths);
        out.count("engine_steps", r.steps);
        if let Some(p) = &r.panic {
            out.violate("M-panic", &format!("panic {} at {}", p.message, p.location), format!("panic '{}' at {}", p.message, p.location), format!("{}", whole));
            return out;
        }
        if remaining.is_empty() {
            out.count("obligations_met", awaited.len() as u64);
            out.count("answers_consumed", produced);
        } else {
            let why = if r.budget_exceeded { format!("step budget F = {} exceeded", f) } else if r.ended { "the stream ended".to_string() } else { "400 answers consumed (the unchanged engine needs fewer than 50 in every generated case)".to_string() };
            out.violate(
                "M-step",
                "an answer that a branch yields on its own is not produced by the disjunction within the fairness bound",
                format!("{}: still awaited {} of {} (each branch's first {} answers alone, reached within {} steps alone); {} answers produced; branches: {:?}", why, show_terms(&remaining), show_terms(&awaited), M, s_max, produced, branches.iter().map(|b| b.kind).collect::<Vec<_>>()),
                format!("{}", whole),
            );
        }
        if has_div || has_inf {
            out.distinct.push(program_key(&whole));
        }
        if index % 397 == 5 {
            out.sample = Some(Json::obj().with("program", Json::s(format!("{}", whole))).with("awaited", Json::s(show_terms(&awaited))).with("bound_F_steps", Json::Int(f as i64)).with("steps_used", Json::Int(r.steps as i64)).with("answers_consumed", Json::Int(produced as i64)));
        }
        let mut seen = BTreeSet::new();
        out.violations.retain(|v| seen.insert(v.signature.clone()));
        out
    }
}
