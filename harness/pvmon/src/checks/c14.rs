//! C14 — surface syntax translates to the documented goals and terms (surface lane).
use super::surface::*;
use super::surfgen::*;
use crate::emit::Naming;
use crate::framework::*;
use crate::util::Rng;

pub struct C14;

impl Check for C14 {
    fn id(&self) -> &'static str {
        "C14"
    }
    fn gens(&self) -> Vec<GenSpec> {
        vec![]
    }
    fn rule(&self) -> &'static str {
        "Random programs over the clause grammar: fresh `|x, y| { }`, `==`, `!=`, `[g, ...]` conjunctions at top level and directly inside operator bodies, conde with 2-4 clauses, conda / condu / onceo with bracketed `[head, rest...]` clauses whose head may be the literal true/false (also as the main goal of dedicated programs), closure { }, loop { } prefixes (infinite: a 40-answer prefix is checked for soundness), relation calls (member, append, cons, first) with tree-term and `{expr}` arguments, true/false, all four literal kinds incl. the empty string and strings with spaces, nested proper/improper lists (improper inside proper and vice versa), `_` in every position incl. improper tails, `x == <term with _>` followed by `x != <instance of it>` (a constraint left on an anonymous variable), compound constructors (unnamed Pair/Triple structs and Rust tuples) at the top of an argument, 1-4 query variables DECLARED in an order different from their use order. Each AST is emitted as Rust source (proto_vulcan_query!), compiled against the current tree and run: the answers per query variable, in declaration order, must equal the reference evaluation of the AST and the API-built twin; the Display of the result struct must list the variables in declaration order; every answer variable must be reified; a second next() after None must return None. Separately, 400-4000 random terms are written with lterm! and compared structurally with the written term. A generated program that fails to compile while the library compiles is a violation. Distinct = distinct AST / term; non-trivial = the reference has at least one answer."
    }
    fn assumptions(&self) -> Vec<String> {
        vec!["reference: pvmon::refsem".into(), "the emitter stays inside the documented grammar (non-negative integer literals, compounds only at the top of an argument)".into()]
    }
    fn floor(&self, tier: Tier) -> u64 {
        match tier {
            Tier::Quick => 200,
            Tier::Thorough => 2500,
        }
    }
    fn required_counters(&self) -> Vec<&'static str> {
        vec!["programs_compiled_and_run", "reference_compared", "api_twin_compared", "lterm_terms_compared", "tag_finite", "tag_loop-prefix", "tag_commit"]
    }
    fn run_batch(&self, tier: Tier, seed: u64) -> Option<Merged> {
        let (cases, lterms) = Self::build_cases(tier, seed);
        Some(run_surface_batch("C14", cases, lterms, seed, true))
    }
    fn run_case(&self, gen: &str, seed: u64, index: u64, tier: Tier) -> CaseOut {
        // replay of one surface case (violation files name them `surface:<k>`)
        if gen != "surface" {
            return CaseOut::default();
        }
        let (cases, _) = Self::build_cases(tier, seed);
        replay_case("C14", cases, index as usize, seed, true)
    }
}

impl C14 {
    fn build_cases(tier: Tier, seed: u64) -> (Vec<SurfCase>, Vec<LtermCase>) {
        let n = if tier == Tier::Thorough { 6000 } else { 500 };
        let mut cases = vec![];
        for i in 0..n {
            let mut rng = Rng::for_case(seed, "c14", i as u64);
            let (prog, infinite) = grammar_program(&mut rng);
            cases.push(SurfCase { prog, naming: if i % 2 == 0 { Naming::Clash } else { Naming::Distinct }, twin_of: None, infinite, ordered: false, tag: if infinite { "loop-prefix" } else { "finite" } });
        }
        let ncommit = if tier == Tier::Thorough { 1500 } else { 120 };
        for i in 0..ncommit {
            let mut rng = Rng::for_case(seed, "c14-commit", i as u64);
            cases.push(SurfCase { prog: commit_surface_program(&mut rng), naming: Naming::Clash, twin_of: None, infinite: false, ordered: false, tag: "commit" });
        }
        let nl = if tier == Tier::Thorough { 4000 } else { 400 };
        let mut lterms = vec![];
        for i in 0..nl {
            let mut rng = Rng::for_case(seed, "c14-lterm", i as u64);
            let depth = 1 + rng.below(3);
            lterms.push(LtermCase { term: tree_term(&mut rng, &[0, 1], depth, true) });
        }
                (cases, lterms)
    }
}
