//! C04 — reordering conjuncts or disjuncts preserves the answer multiset.
use super::common::*;
use crate::ast::*;
use crate::canon::*;
use crate::framework::*;
use crate::gen::*;
use crate::run::*;
use crate::term::{T, V};
use crate::util::{permutations, Rng};
use std::collections::BTreeSet;

pub struct C04;

fn v(i: V) -> T {
    T::Var(i)
}

const FIXED: [&str; 5] = ["constraint-before-domain", "distinct-before-bindings", "diseq-pairs-then-alias", "six-clause-conde", "plusfd-before-domains"];

fn fixed_program(i: usize) -> Program {
    match i {
        0 => Program::new(vec![0, 1], vec![G::Ltfd(v(0), v(1)), G::Plusfd(v(0), v(1), T::Int(3)), G::InFdRange(T::list(vec![v(0), v(1)]), 0, 3)]),
        1 => Program::new(vec![0, 1], vec![G::Distinctfd(T::list(vec![v(0), v(1)])), G::Eq(v(0), T::Int(1)), G::Conde(vec![vec![G::Eq(v(1), T::Int(1))], vec![G::Eq(v(1), T::Int(2))]]), G::InFdRange(T::list(vec![v(0), v(1)]), 0, 3)]),
        2 => Program::new(vec![0, 1], vec![G::Diseq(T::list(vec![v(0), v(1)]), T::list(vec![T::Int(1), T::Int(2)])), G::Eq(v(0), v(1)), G::Conde(vec![vec![G::Eq(v(1), T::Int(1))], vec![G::Eq(v(1), T::Int(2))]])]),
        3 => Program::new(vec![0], vec![G::Conde((1..=6).map(|k| vec![G::Eq(v(0), T::Int(k))]).collect())]),
        _ => Program::new(vec![0, 1, 2], vec![G::Plusfd(v(0), v(1), v(2)), G::InFdRange(v(0), 0, 1), G::InFdRange(v(1), 0, 1), G::InFdRange(v(2), 1, 2)]),
    }
}

/// Tree program with an FD part grafted in: FD goals scattered among ==, != and conde.
fn mixed_program(rng: &mut Rng) -> Program {
    let fdp = fd_program(rng, &FdCfg { max_vars: 3, max_cons: 4, allow_conde: true, ..FdCfg::default() });
    // flatten a top-level fresh so that the tree goals can mention the same variables
    let (mut body, hidden): (Vec<G>, Vec<V>) = match fdp.body.as_slice() {
        [G::Fresh(vs, gs)] => (gs.clone(), vs.clone()),
        _ => (fdp.body.clone(), vec![]),
    };
    let mut scope: Vec<V> = fdp.qvars.clone();
    scope.extend(hidden.iter().copied());
    let extra = 1 + rng.below(3);
    for _ in 0..extra {
        let x = v(*rng.pick(&scope));
        let g = match rng.below(5) {
            0 => G::Diseq(x, T::Int(rng.range(-1, 2))),
            1 => G::Diseq(T::list(vec![x, v(*rng.pick(&scope))]), T::list(vec![T::Int(rng.range(0, 1)), T::Int(rng.range(0, 1))])),
            2 => G::Conde(vec![vec![G::Eq(x.clone(), T::Int(rng.range(-1, 2)))], vec![G::Eq(x, T::Int(rng.range(-1, 2)))], vec![G::Succeed]]),
            3 => G::Eq(x, v(*rng.pick(&scope))),
            _ => G::Conde(vec![vec![G::Ltefd(x.clone(), T::Int(rng.range(-1, 2)))], vec![G::Ltefd(T::Int(rng.range(-1, 2)), x)]]),
        };
        let pos = rng.below(body.len() + 1);
        body.insert(pos, g);
    }
    if hidden.is_empty() {
        Program::new(fdp.qvars.clone(), body)
    } else {
        Program::new(fdp.qvars.clone(), vec![G::Fresh(hidden, body)])
    }
}

/// Permute the goal list that carries the program (top level, or the body of a single fresh).
fn reorder_main(p: &Program, perm: &[usize]) -> Program {
    match p.body.as_slice() {
        [G::Fresh(vs, gs)] => Program { rels: vec![], qvars: p.qvars.clone(), body: vec![G::Fresh(vs.clone(), perm.iter().map(|i| gs[*i].clone()).collect())] },
        _ => reorder_top(p, perm),
    }
}

fn main_len(p: &Program) -> usize {
    match p.body.as_slice() {
        [G::Fresh(_, gs)] => gs.len(),
        _ => p.body.len(),
    }
}

impl Check for C04 {
    fn id(&self) -> &'static str {
        "C04"
    }
    fn gens(&self) -> Vec<GenSpec> {
        vec![
            GenSpec { name: "tree", quick: 1500, thorough: 20_000 },
            GenSpec { name: "fd", quick: 1500, thorough: 15_000 },
            GenSpec { name: "mixed", quick: 1500, thorough: 15_000 },
            GenSpec { name: "fixed", quick: FIXED.len() as u64, thorough: FIXED.len() as u64 },
        ]
    }
    fn rule(&self) -> &'static str {
        "Terminating programs without recursion: 'tree' (==, !=, conde up to 6 clauses, fresh, nested), 'fd' (the C16 generator: FD constraints posted before/after domains and bindings, aliasing, hidden variables, conde of bindings), 'mixed' (FD programs with !=, ==, conde over ==/ltefd grafted in at random positions), 'fixed'. For each program: EVERY permutation of the main conjunction when it has <= 4 goals (else 8 random ones), plus 3 random simultaneous permutations of every conjunction and every disjunction at every nesting level; the permuted program's answers must equal the original's as a multiset of ground-instance sets (FD answers are ground). Real engine vs real engine; each run on a fresh thread (fresh hash seeds). Distinct = distinct program text; non-trivial = at least 2 goals in the main conjunction and at least one answer in some order."
    }
    fn assumptions(&self) -> Vec<String> {
        vec!["no reference model involved: both sides of every comparison are executions of the real engine".into(), "programs are well-formed per C23 in every order (each FD variable gets a domain somewhere in the same conjunction)".into()]
    }
    fn floor(&self, tier: Tier) -> u64 {
        match tier {
            Tier::Quick => 1000,
            Tier::Thorough => 12_000,
        }
    }
    fn required_counters(&self) -> Vec<&'static str> {
        vec!["permutations_compared", "nested_permutations_compared", "programs_with_fd", "programs_with_conde", "programs_with_answers"]
    }
    fn run_case(&self, gen: &str, seed: u64, index: u64, tier: Tier) -> CaseOut {
        let mut out = CaseOut::default();
        let mut rng = Rng::for_case(seed, gen, index);
        let prog = match gen {
            "fixed" => fixed_program(index as usize),
            "fd" => fd_program(&mut rng, &FdCfg { max_cons: 5, ..FdCfg::default() }),
            "mixed" => mixed_program(&mut rng),
            _ => {
                let mut c = TreeCfg::default();
                c.nq = 1 + rng.below(2);
                c.max_conde_clauses = 6;
                c.compounds = rng.chance(1, 4);
                c.max_goals = 5;
                TreeGen::new(&mut rng, c).program()
            }
        };
        let cfg = RunCfg { max_answers: 5000, step_budget: 2_000_000, extra_next: 1, display: false };
        let base = &run_query_seeds(&prog, &cfg, 1)[0];
        out.count("programs", 1);
        if let Some(p) = &base.panic {
            out.violate("M-panic", &format!("panic {} at {}", p.message, p.location), format!("panic '{}' at {}", p.message, p.location), format!("{}", prog));
            return out;
        }
        if base.budget_exceeded {
            out.inconclusive.push("step budget exceeded".into());
            return out;
        }
        let kinds = prog.goal_kinds();
        if kinds.iter().any(|k| k.ends_with("fd") || k.starts_with("infd")) {
            out.count("programs_with_fd", 1);
        }
        if kinds.contains("conde") {
            out.count("programs_with_conde", 1);
        }
        let uni = universe(&prog, &[]);
        let n = main_len(&prog);
        let mut variants: Vec<(Program, bool)> = vec![];
        if n <= 4 {
            for p in permutations(n) {
                if p.iter().enumerate().any(|(i, j)| i != *j) {
                    variants.push((reorder_main(&prog, &p), false));
                }
            }
        } else {
            for _ in 0..8 {
                let mut p: Vec<usize> = (0..n).collect();
                rng.shuffle(&mut p);
                variants.push((reorder_main(&prog, &p), false));
            }
        }
        let nested = if tier == Tier::Thorough { 5 } else { 3 };
        for _ in 0..nested {
            variants.push((permute_program(&mut rng, &prog, true, true), true));
        }
        let mut any_answers = !base.answers.is_empty();
        for (pv, is_nested) in variants.iter() {
            let r = &run_query_seeds(pv, &cfg, 1)[0];
            if let Some(p) = &r.panic {
                out.violate("M-panic", &format!("panic {} at {}", p.message, p.location), format!("permuted program panics: '{}' at {}", p.message, p.location), format!("{}", pv));
                continue;
            }
            if r.budget_exceeded {
                out.inconclusive.push("permuted: step budget exceeded".into());
                continue;
            }
            out.count(if *is_nested { "nested_permutations_compared" } else { "permutations_compared" }, 1);
            any_answers |= !r.answers.is_empty();
            if cut_at_cap(base.ended, base.answers.len(), r.ended, r.answers.len()) {
                out.count("comparisons_skipped_answer_cap", 1);
            } else if let Cmp::Different(why) = compare_multisets(&base.answers, &r.answers, &uni) {
                out.violate(
                    "M-meta",
                    if *is_nested { "reordering conjuncts/disjuncts changes the answer multiset" } else { "reordering the conjunction changes the answer multiset" },
                    format!("{} | original {} | permuted {} | permuted program: {}", why, show_answers(&base.answers), show_answers(&r.answers), pv),
                    format!("{}", prog),
                );
                break;
            }
        }
        if any_answers {
            out.count("programs_with_answers", 1);
        }
        if n >= 2 && any_answers {
            out.distinct.push(program_key(&prog));
        }
        if index % 499 == 3 || (gen == "fixed" && index == 1) {
            out.sample = Some(sample_json(&prog, &base.answers, &format!("{} reorderings compared", variants.len())));
        }
        let mut seen = BTreeSet::new();
        out.violations.retain(|v| seen.insert(v.signature.clone()));
        out
    }
}
