//! C05 — depth-first search yields answers in Prolog order.
use super::common::*;
use super::search::*;
use super::surface::*;
use crate::emit::Naming;
use crate::ast::*;
use crate::canon::*;
use crate::framework::*;
use crate::gen::*;
use crate::run::*;
use crate::term::{T, V};
use crate::util::Rng;
use std::collections::BTreeSet;

pub struct C05;

fn v(i: V) -> T {
    T::Var(i)
}

const FIXED: [&str; 5] = ["four-clauses", "conj-order", "nested-cond", "member-append", "match-alternatives"];

fn fixed_program(i: usize) -> Program {
    let eqc = |x: V, k: i64| vec![G::Eq(v(x), T::Int(k))];
    match i {
        0 => Program::new(vec![0], vec![G::Cond(vec![eqc(0, 1), eqc(0, 2), eqc(0, 3), eqc(0, 4), eqc(0, 5)])]),
        1 => Program::new(vec![0, 1], vec![G::Cond(vec![eqc(0, 1), eqc(0, 2)]), G::Cond(vec![eqc(1, 1), eqc(1, 2), eqc(1, 3)])]),
        2 => Program::new(vec![0], vec![G::Cond(vec![vec![G::Cond(vec![eqc(0, 1), vec![G::Succeed], eqc(0, 2)])], vec![G::Fail], vec![G::Cond(vec![eqc(0, 3), vec![G::Cond(vec![eqc(0, 4), eqc(0, 5)])]])], eqc(0, 6)])]),
        3 => Program::new(vec![0, 1], vec![G::Call(Rel::Append, vec![v(0), v(1), T::list(vec![T::Int(1), T::Int(2), T::Int(3)])]), G::Call(Rel::Member, vec![T::Int(2), v(0)])]),
        _ => Program::new(
            vec![0],
            vec![G::Match(
                MatchKind::Match,
                T::list(vec![T::Int(1), T::Int(2)]),
                vec![
                    Arm { pats: vec![T::improper(vec![v(5)], T::Any), T::improper(vec![T::Any, v(5)], T::Any)], body: vec![G::Eq(v(0), v(5))] },
                    Arm { pats: vec![T::Any], body: vec![G::Eq(v(0), T::Int(0))] },
                    Arm { pats: vec![T::list(vec![v(6), v(7)])], body: vec![G::Cond(vec![vec![G::Eq(v(0), v(7))], vec![G::Eq(v(0), v(6))]])] },
                    Arm { pats: vec![T::Nil], body: vec![] },
                ],
            )],
        ),
    }
}

fn order_violation(prog: &Program, real: &[Ans], rans: &[Ans]) -> Option<(String, String)> {
    let uni = universe(prog, &[]);
    match compare_sequences(real, rans, &uni) {
        Cmp::Equal | Cmp::EqualTuplesOnly => None,
        Cmp::Different(why) => {
            // same multiset? then it is purely an order violation
            let same_set = tuple_multiset(real) == tuple_multiset(rans);
            Some((
                if same_set { "depth-first answers are not in Prolog order".to_string() } else { "depth-first answers differ from the reference (not only in order)".to_string() },
                format!("{} | real {} | reference {}", why, show_answers(real), show_answers(rans)),
            ))
        }
    }
}

/// `dfs { match t { p1 | p2 | .. => body, .. } }` where several alternatives of one arm (and several
/// arms) match the same scrutinee, each binding the pattern variable to a different element.
fn orpat_program(rng: &mut Rng) -> Program {
    let n = 2 + rng.below(3);
    let items: Vec<T> = (0..n).map(|i| T::Int(i as i64 + 1)).collect();
    let narms = 1 + rng.below(3);
    let mut arms = vec![];
    for a in 0..narms {
        let x: V = 50 + a as V;
        let nalt = 1 + rng.below(3);
        let mut pats = vec![];
        for _ in 0..nalt {
            let j = rng.below(n + 1);
            let mut front: Vec<T> = (0..j.min(n - 1)).map(|_| T::Any).collect();
            let p = if j >= n {
                // the whole list
                T::Var(x)
            } else if rng.chance(1, 2) {
                front.push(T::Var(x));
                T::improper(front, T::Any)
            } else {
                // exact-length pattern
                let mut all: Vec<T> = (0..n).map(|_| T::Any).collect();
                all[j] = T::Var(x);
                T::list(all)
            };
            pats.push(p);
        }
        let body = match rng.below(3) {
            0 => vec![G::Eq(v(0), T::Var(x))],
            1 => vec![G::Cond(vec![vec![G::Eq(v(0), T::Var(x))], vec![G::Eq(v(0), T::list(vec![T::Var(x), T::Int(a as i64)]))]])],
            _ => vec![G::Eq(v(0), T::list(vec![T::Int(a as i64), T::Var(x)]))],
        };
        arms.push(Arm { pats, body });
    }
    let scrut_var: V = 40;
    let (scrut, pre) = if rng.chance(1, 2) { (T::list(items), vec![]) } else { (T::Var(scrut_var), vec![G::Eq(T::Var(scrut_var), T::list(items))]) };
    let mut inner = pre;
    inner.push(G::Match(MatchKind::Match, scrut, arms));
    if rng.chance(1, 3) {
        inner.push(G::Cond(vec![vec![G::Eq(v(1), T::Int(1))], vec![G::Eq(v(1), T::Int(2))]]));
    }
    Program::new(vec![0, 1], vec![G::Dfs(vec![vec![G::Fresh(vec![scrut_var], inner)]])])
}

impl C05 {
    /// Depth-first programs that are EMITTED AS SOURCE and compiled, so that the order produced by
    /// the macro expansion (clause order of cond, alternative order of `p1 | p2` arms, conjunction
    /// order inside operator bodies) is observed too, not only the order of API-built goal trees.
    fn surface_cases(tier: Tier, seed: u64) -> Vec<SurfCase> {
        let n = if tier == Tier::Thorough { 1500 } else { 70 };
        let mut cases = vec![];
        for i in 0..FIXED.len() {
            cases.push(SurfCase { prog: dfs_wrapped(&fixed_program(i)), naming: Naming::Distinct, twin_of: None, infinite: false, ordered: true, tag: "fixed" });
        }
        for i in 0..n {
            let mut rng = Rng::for_case(seed, "c05-surface", i as u64);
            cases.push(SurfCase { prog: orpat_program(&mut rng), naming: Naming::Distinct, twin_of: None, infinite: false, ordered: true, tag: "orpat" });
            let mut tries = 0;
            loop {
                tries += 1;
                let mut cfg = SearchCfg::default();
                cfg.nq = 1 + rng.below(2);
                cfg.max_goals = 3;
                let k = rng.below(5);
                let prog = dfs_wrapped_split(&SearchGen::new(&mut rng, cfg).program(), k);
                let ok = match ref_answers(&prog, false) {
                    Ok(a) => a.len() >= 2 && a.len() <= 30,
                    Err(_) => false,
                };
                if ok || tries >= 20 {
                    if ok {
                        cases.push(SurfCase { prog, naming: Naming::Distinct, twin_of: None, infinite: false, ordered: true, tag: "search" });
                    }
                    break;
                }
            }
        }
        cases
    }
}

impl Check for C05 {
    fn id(&self) -> &'static str {
        "C05"
    }
    fn gens(&self) -> Vec<GenSpec> {
        vec![GenSpec { name: "search", quick: 8000, thorough: 400_000 }, GenSpec { name: "wide", quick: 3000, thorough: 100_000 }, GenSpec { name: "fixed", quick: FIXED.len() as u64, thorough: FIXED.len() as u64 }]
    }
    fn rule(&self) -> &'static str {
        "Finite-tree programs wrapped in dfs { } (the body written as one bracketed clause, as one clause per goal, or split into two clauses): nested mode-inferred disjunctions (cond) of 2-6 clauses incl. trivially true/false clauses, conjunctions whose earlier goals have several answers, fresh, member/append/rember on ground and partially ground lists, generated structurally recursive relations (closures) over ground lists, match with alternatives (DFS conde), ==, !=, to nesting depth 3; 'wide' forces disjunctions of 4-6 clauses with answers in the middle clauses. The sequence of answers of the real engine is compared POSITION BY POSITION with the reference depth-first interpreter (tuple variants + equal ground-instance sets of the constraints). A second lane EMITS depth-first programs as Rust source (proto_vulcan_query!), compiles them against the current tree and compares the compiled program's answer sequence with the reference in the same way: the fixed programs, programs `dfs { match t { p1 | p2 | p3 => body, ... } }` in which several alternatives of one arm and several arms match the same list (each binding the pattern variable to a different element), and search programs from the generator above with 2-30 answers; this observes the order produced by the macro expansion, which API-built goal trees bypass. Distinct = distinct program text; non-trivial = the reference yields at least 2 answers (an order exists)."
    }
    fn assumptions(&self) -> Vec<String> {
        vec!["reference: left-to-right depth-first list-monad interpreter (pvmon::refsem), written independently of the stream engine".into()]
    }
    fn floor(&self, tier: Tier) -> u64 {
        match tier {
            Tier::Quick => 2000,
            Tier::Thorough => 80_000,
        }
    }
    fn required_counters(&self) -> Vec<&'static str> {
        vec!["sequences_compared", "dfs_bodies_with_several_clauses", "compiled_sequences_compared", "tag_orpat", "tag_search", "path_mplus_dfs_empty", "path_mplus_dfs_unit", "path_mplus_dfs_lazy", "path_mplus_dfs_cons", "path_bind_dfs_cons", "path_bind_dfs_unit", "path_bind_dfs_lazy", "programs_with_4plus_clause_disjunction"]
    }
    fn run_batch(&self, tier: Tier, seed: u64) -> Option<Merged> {
        let cases = Self::surface_cases(tier, seed);
        Some(run_surface_batch("C05", cases, vec![], seed, false))
    }
    fn run_case(&self, gen: &str, seed: u64, index: u64, tier: Tier) -> CaseOut {
        if gen == "surface" {
            // replay of one compiled case (violation files name them `surface:<k>`)
            return replay_case("C05", Self::surface_cases(tier, seed), index as usize, seed, false);
        }
        let mut out = CaseOut::default();
        let mut rng = Rng::for_case(seed, gen, index);
        let inner = match gen {
            "fixed" => fixed_program(index as usize),
            "wide" => {
                // a disjunction of 4-6 clauses with answers, possibly under a conjunction prefix
                let mut g = SearchGen::new(&mut rng, SearchCfg { nesting: 2, max_goals: 2, ..SearchCfg::default() });
                let q: Vec<V> = vec![g.next_var, g.next_var + 1];
                g.next_var += 2;
                let mut scope = q.clone();
                let nc = 4 + g.rng.below(3);
                let mut cs = vec![];
                for k in 0..nc {
                    let mut c = vec![];
                    if g.rng.chance(3, 4) {
                        c.push(G::Eq(T::Var(q[0]), T::Int(k as i64)));
                    }
                    if g.rng.chance(1, 2) {
                        c.push(g.goal(&mut scope, 1));
                    }
                    if c.is_empty() {
                        c.push(G::Succeed);
                    }
                    cs.push(c);
                }
                let mut body = vec![];
                if g.rng.chance(1, 2) {
                    body.push(g.goal(&mut scope, 1));
                }
                body.push(G::Cond(cs));
                if g.rng.chance(1, 2) {
                    body.push(g.goal(&mut scope, 1));
                }
                Program { rels: g.rels.clone(), qvars: q, body }
            }
            _ => {
                let mut cfg = SearchCfg::default();
                cfg.nq = 1 + rng.below(2);
                if tier == Tier::Thorough && rng.chance(1, 3) {
                    cfg.max_goals = 5;
                }
                SearchGen::new(&mut rng, cfg).program()
            }
        };
        // the body of dfs { } as one bracketed clause, one clause per goal, or split in two
        let split = rng.below(5);
        let prog = dfs_wrapped_split(&inner, split);
        if matches!(prog.body.as_slice(), [G::Dfs(cs)] if cs.len() >= 2) {
            out.count("dfs_bodies_with_several_clauses", 1);
        }
        let rans = match ref_answers(&prog, false) {
            Ok(a) => a,
            Err(e) => {
                out.count("reference_gave_up", 1);
                if index % 50 == 0 {
                    out.inconclusive.push(format!("reference: {:?}", e));
                }
                return out;
            }
        };
        if rans.len() > 400 {
            out.count("skipped_too_many_answers", 1);
            return out;
        }
        let cfg = RunCfg { max_answers: 2000, step_budget: 400_000, extra_next: 2, display: true };
        let real = run_query(&prog, &cfg);
        out.count("programs", 1);
        if !usable(&real, &mut out, &prog, "dfs query") {
            return out;
        }
        count_paths(&mut out, &real.paths);
        out.count("answers", real.answers.len() as u64);
        out.count("sequences_compared", 1);
        fn wide(g: &G) -> bool {
            matches!(g, G::Cond(cs) if cs.len() >= 4) || g.clauses().iter().any(|c| c.iter().any(wide))
        }
        if inner.body.iter().any(wide) {
            out.count("programs_with_4plus_clause_disjunction", 1);
        }
        if let Some((sig, why)) = order_violation(&prog, &real.answers, &rans) {
            // shrink while the same monitor still fires
            let sig0 = sig.clone();
            let small = crate::shrink::shrink_program(
                &prog,
                &mut |cand: &Program| {
                    if !matches!(cand.body.as_slice(), [G::Dfs(_)]) {
                        return false; // keep the dfs { } wrapper
                    }
                    let r = match ref_answers(cand, false) {
                        Ok(a) => a,
                        Err(_) => return false,
                    };
                    let real = run_query(cand, &cfg);
                    if real.panic.is_some() || real.budget_exceeded {
                        return false;
                    }
                    matches!(order_violation(cand, &real.answers, &r), Some((s2, _)) if s2 == sig0)
                },
                300,
            );
            let detail = if small.size() < prog.size() {
                let r = ref_answers(&small, false).unwrap_or_default();
                let real2 = run_query(&small, &cfg);
                format!("shrunk program: real {} | reference {} || original: {} | {}", show_answers(&real2.answers), show_answers(&r), prog, why)
            } else {
                why
            };
            out.violate("M-ref", &sig, detail, format!("{}", small));
        }
        if rans.len() >= 2 {
            out.distinct.push(program_key(&prog));
        }
        if index % 1999 == 4 || (gen == "fixed" && index == 2) {
            out.sample = Some(sample_json(&prog, &real.answers, &format!("reference order: {}", show_answers(&rans))));
        }
        let mut seen = BTreeSet::new();
        out.violations.retain(|v| seen.insert(v.signature.clone()));
        out
    }
}
