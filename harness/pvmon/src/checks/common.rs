//! Helpers shared by the checks: reference runs, monitors on raw answers and on states.
use crate::ast::*;
use crate::build::*;
use crate::canon::*;
use crate::framework::CaseOut;
use crate::refsem::{Ref, RefErr};
use crate::run::*;
use crate::term::{T, V};
use crate::util::{fnv, Json};
use proto_vulcan::lterm::LTermInner;
use proto_vulcan::relation::diseq::DisequalityConstraint;
use std::collections::{BTreeSet, HashMap};

pub fn program_key(p: &Program) -> u64 {
    fnv(&format!("{}", p))
}

/// Reference answers (depth-first order) in the common form.
pub fn ref_answers(p: &Program, set_reading: bool) -> Result<Vec<Ans>, RefErr> {
    let mut r = Ref::new(p);
    r.set_reading = set_reading;
    let a = r.run()?;
    Ok(a.iter().map(Ans::from_ref).collect())
}

/// Standard handling of a run that did not complete normally. Returns true if the run is usable.
pub fn usable(run: &RunOut, out: &mut CaseOut, prog: &Program, what: &str) -> bool {
    if let Some(p) = &run.panic {
        out.violate("M-panic", &format!("panic {} at {}", p.message, p.location), format!("{}: panic '{}' at {}", what, p.message, p.location), format!("{}", prog));
        return false;
    }
    if run.budget_exceeded {
        out.inconclusive.push(format!("{}: step budget exceeded", what));
        return false;
    }
    if run.fused_violation {
        out.violate("M-ans", "iterator returned Some after None", format!("{}: next() returned Some after the iterator had returned None", what), format!("{}", prog));
    }
    true
}

/// A run that stopped at its answer cap before the stream ended cannot be compared as a complete
/// multiset with a side that has at least as many answers (it would only be a prefix). A capped
/// run with MORE answers than a complete other side is still compared (and differs).
pub fn cut_at_cap(run_ended: bool, run_len: usize, other_ended: bool, other_len: usize) -> bool {
    (!run_ended && other_len >= run_len) || (!other_ended && run_len >= other_len)
}

pub fn usable_states(run: &StatesOut, out: &mut CaseOut, prog: &Program, what: &str) -> bool {
    if let Some(p) = &run.panic {
        out.violate("M-panic", &format!("panic {} at {}", p.message, p.location), format!("{}: panic '{}' at {}", what, p.message, p.location), format!("{}", prog));
        return false;
    }
    if run.budget_exceeded {
        out.inconclusive.push(format!("{}: step budget exceeded", what));
        return false;
    }
    true
}

fn deep_vars(t: &T) -> BTreeSet<V> {
    t.vars().into_iter().collect()
}

/// C03 structural monitor on one reported answer. Returns violation messages.
pub fn c03_monitor(raw: &RawAnswer) -> Vec<(String, String)> {
    let mut v = vec![];
    for (id, name) in raw.var_names.iter() {
        if name != "_" {
            v.push(("answer term contains a non-reified variable".to_string(), format!("variable #{} in the answer terms is named '{}' instead of '_' (terms: {})", id, name, show_terms(&raw.terms))));
        }
    }
    let tuple_vars: BTreeSet<V> = raw.terms.iter().flat_map(|t| t.vars()).collect();
    for (ci, c) in raw.cons.iter().enumerate() {
        for (a, b) in c.iter() {
            for x in a.vars().into_iter().chain(b.vars().into_iter()) {
                if !tuple_vars.contains(&x) {
                    let name = raw.cons_var_names.iter().find(|(id, _)| *id == x).map(|(_, n)| n.clone()).unwrap_or_default();
                    v.push((
                        "reported constraint mentions a variable that is not a reified variable of the answer".to_string(),
                        format!("constraint #{} {{{}}} mentions variable #{} (name '{}') which occurs in no query term of the answer {}", ci, show_pairs(c), x, name, show_terms(&raw.terms)),
                    ));
                }
            }
        }
    }
    for (id, name) in raw.cons_var_names.iter() {
        if name != "_" {
            v.push(("reported constraint mentions a non-reified variable".to_string(), format!("variable #{} in the reported constraints is named '{}'", id, name)));
        }
    }
    for (i, t) in raw.terms.iter().enumerate() {
        let tv = deep_vars(t);
        let mut model: Vec<usize> = vec![];
        let mut must: Vec<usize> = vec![];
        for (ci, c) in raw.cons.iter().enumerate() {
            // a constraint is "on" a variable when the variable is one of its operands: a key, or
            // a value that is itself a variable (this is what Constraint::operands reports), or
            // occurs inside a value term.
            let mentions = c.iter().any(|(a, b)| a.vars().iter().any(|x| tv.contains(x)) || b.vars().iter().any(|x| tv.contains(x)));
            if mentions {
                model.push(ci);
            }
            // narrow reading used for "omits": the variable is an operand of the constraint
            // (a key, or a value that is itself a variable)
            let operand = c.iter().any(|(a, b)| matches!(a, T::Var(x) if tv.contains(x)) || matches!(b, T::Var(x) if tv.contains(x)));
            if operand {
                must.push(ci);
            }
        }
        let got = &raw.relevant[i];
        let missing: Vec<usize> = must.iter().filter(|c| !got.contains(c)).copied().collect();
        if !missing.is_empty() {
            v.push((
                "constraints() omits a reported constraint on a reified variable of the result".to_string(),
                format!("query variable #{} = {} : constraints() returned {:?} but constraints {:?} mention its reified variables (all constraints: {})", i, t, got, model, raw.cons.iter().map(|c| format!("{{{}}}", show_pairs(c))).collect::<Vec<_>>().join(" ")),
            ));
        }
        let extra: Vec<usize> = got.iter().filter(|c| !model.contains(c)).copied().collect();
        if !extra.is_empty() {
            v.push(("constraints() returns a constraint that mentions no variable of the result".to_string(), format!("query variable #{} = {} : constraints() returned {:?}, model {:?}", i, t, got, model)));
        }
        if raw.constrained[i] != !got.is_empty() {
            v.push(("is_constrained() disagrees with constraints()".to_string(), format!("query variable #{} = {}", i, t)));
        }
    }
    v
}

pub fn show_pairs(c: &[(T, T)]) -> String {
    c.iter().map(|(a, b)| format!("{}={}", a, b)).collect::<Vec<_>>().join(", ")
}

/// M-state: invariants of a search state at a quiescent point.
pub fn state_invariants(state: &St) -> Vec<(String, String)> {
    let mut v = vec![];
    let smap = state.smap_ref();
    // own fuel-bounded walk, so that a cyclic substitution is reported instead of overflowing the stack
    fn walk_fuel(smap: &proto_vulcan::state::SMap<U, E>, t: &L, fuel: &mut i64, seen_vars: &mut Vec<L>) -> bool {
        if *fuel <= 0 {
            return false;
        }
        *fuel -= 1;
        let w = smap.walk(t).clone();
        match w.as_ref() {
            LTermInner::Var(_, _) => true,
            LTermInner::Cons(h, tl) => walk_fuel(smap, h, fuel, seen_vars) && walk_fuel(smap, tl, fuel, seen_vars),
            LTermInner::Compound(obj) => {
                fn kids(smap: &proto_vulcan::state::SMap<U, E>, obj: &dyn proto_vulcan::compound::CompoundObject<U, E>, fuel: &mut i64, seen: &mut Vec<L>) -> bool {
                    for c in obj.children() {
                        let ok = match c.as_term() {
                            Some(t) => walk_fuel(smap, t, fuel, seen),
                            None => kids(smap, c, fuel, seen),
                        };
                        if !ok {
                            return false;
                        }
                    }
                    true
                }
                kids(smap, obj.as_ref(), fuel, seen_vars)
            }
            _ => true,
        }
    }
    for (k, val) in smap.iter() {
        if !k.is_var() {
            v.push(("substitution key is not a variable".to_string(), format!("key {:?}", k)));
            continue;
        }
        let mut fuel: i64 = 20_000;
        if !walk_fuel(smap, val, &mut fuel, &mut vec![]) {
            v.push(("substitution is cyclic (walk* does not terminate)".to_string(), format!("walking the value of {} ran out of fuel", k)));
            return v; // do not let real code walk this state
        }
        if state.dstore_ref().contains_key(k) {
            v.push(("variable is both bound in the substitution and present in the domain store".to_string(), format!("variable {} bound to {} still has domain {:?}", k, smap.walk(k), state.dstore_ref().get(k))));
        }
    }
    for (k, d) in state.dstore_ref().iter() {
        let n = d.iter().take(3).count();
        if n == 0 {
            v.push(("stored domain is empty".to_string(), format!("variable {}", k)));
        }
        if n == 1 {
            v.push(("stored domain is a singleton (should have become a binding)".to_string(), format!("variable {} domain {:?}", k, d)));
        }
        if !k.is_var() {
            v.push(("domain store key is not a variable".to_string(), format!("key {:?}", k)));
        }
    }
    for c in state.cstore_ref().iter() {
        if let Some(tree) = c.downcast_ref::<DisequalityConstraint<U, E>>() {
            if tree.smap_ref().is_empty() {
                v.push(("stored disequality constraint is empty".to_string(), String::new()));
            }
            for (k, _) in tree.smap_ref().iter() {
                if !k.is_var() {
                    v.push(("disequality constraint key is not a variable".to_string(), format!("{:?}", k)));
                } else if !smap.walk(k).is_var() {
                    v.push(("stored disequality constraint has a bound key (not re-normalised after an extension)".to_string(), format!("key {} is bound to {}", k, smap.walk(k))));
                }
            }
        }
    }
    v
}

/// Insert `Probe(i)` after every top-level goal.
pub fn with_probes(p: &Program) -> Program {
    let mut body = vec![];
    for (i, g) in p.body.iter().enumerate() {
        body.push(g.clone());
        body.push(G::Probe(i as u32));
    }
    Program { rels: p.rels.clone(), qvars: p.qvars.clone(), body }
}

pub fn sample_json(p: &Program, answers: &[Ans], extra: &str) -> Json {
    Json::obj()
        .with("program", Json::s(format!("{}", p)))
        .with("answers_observed", Json::strs(answers.iter().take(8).map(|a| format!("{}", a))))
        .with("note", Json::s(extra))
}

/// Map from real variables to AST names for the query variables (for rendering states).
pub fn qvar_names(prog: &Program, qvars: &[L]) -> HashMap<L, V> {
    let mut m = HashMap::new();
    for (v, l) in prog.qvars.iter().zip(qvars.iter()) {
        m.insert(l.clone(), *v);
    }
    m
}

/// A goal-kinds based non-triviality rule: at least `min_kinds` different goal kinds and at
/// least one answer or one failing branch.
pub fn nontrivial(p: &Program, min_kinds: usize) -> bool {
    p.goal_kinds().len() >= min_kinds
}
