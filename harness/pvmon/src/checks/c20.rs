//! C20 — compound terms unify, constrain, reify and label structurally.
use super::common::*;
use crate::ast::*;
use crate::canon::*;
use crate::framework::*;
use crate::gen::*;
use crate::run::*;
use crate::term::{T, V};
use crate::util::Rng;
use std::collections::BTreeSet;

pub struct C20;

fn twin_goal(g: &G) -> G {
    let tt = |t: &T| t.tagged();
    let tc = |cs: &Vec<Vec<G>>| cs.iter().map(|c| c.iter().map(twin_goal).collect()).collect::<Vec<Vec<G>>>();
    match g {
        G::Eq(a, b) => G::Eq(tt(a), tt(b)),
        G::Diseq(a, b) => G::Diseq(tt(a), tt(b)),
        G::Conj(gs) => G::Conj(gs.iter().map(twin_goal).collect()),
        G::Conde(cs) => G::Conde(tc(cs)),
        G::Fresh(vs, gs) => G::Fresh(vs.clone(), gs.iter().map(twin_goal).collect()),
        other => other.clone(),
    }
}

pub fn twin(p: &Program) -> Program {
    Program { rels: vec![], qvars: p.qvars.clone(), body: p.body.iter().map(twin_goal).collect() }
}

fn tag_ans(a: &Ans) -> Ans {
    // the outer query tuple stays a plain list; each component is encoded
    let items: Vec<T> = a.tuple.unroll().0.into_iter().map(|t| t.tagged()).collect();
    Ans { tuple: T::list(items), cons: a.cons.iter().map(|c| c.iter().map(|(x, y)| (x.tagged(), y.tagged())).collect()).collect() }.renamed()
}

fn v(i: V) -> T {
    T::Var(i)
}

const FIXED: [&str; 10] = ["diff-type-same-arity", "comp-vs-list", "comp-vs-atom", "occurs-through-comp", "option", "tuple", "nested", "diseq-comp", "fd-in-pair", "fd-in-nested"];

fn fixed_program(i: usize) -> Program {
    match i {
        0 => Program::new(vec![0], vec![G::Eq(T::pair(v(0), T::Int(1)), T::Comp("Named", vec![T::Int(2), T::Int(1)]))]),
        1 => Program::new(vec![0], vec![G::Eq(T::pair(v(0), T::Int(1)), T::list(vec![T::Int(2), T::Int(1)]))]),
        2 => Program::new(vec![0], vec![G::Eq(T::Comp("Some", vec![v(0)]), T::Int(1))]),
        3 => Program::new(vec![0, 1], vec![G::Eq(v(1), v(0)), G::Eq(v(0), T::pair(v(1), T::Int(1)))]),
        4 => Program::new(vec![0, 1], vec![G::Eq(T::Comp("Some", vec![v(0)]), T::Comp("Some", vec![T::Int(2)])), G::Conde(vec![vec![G::Eq(T::Comp("Some", vec![T::Int(1)]), T::Comp("Some", vec![T::Int(2)])), G::Eq(v(1), T::Int(1))], vec![G::Eq(v(1), T::Comp("Some", vec![v(0)]))]])]),
        5 => Program::new(vec![0, 1], vec![G::Eq(T::Comp("", vec![v(0), T::Int(2)]), T::Comp("", vec![T::Int(1), v(1)]))]),
        6 => Program::new(vec![0, 1], vec![G::Eq(v(0), T::Comp("Triple", vec![T::pair(v(1), T::Int(1)), T::list(vec![T::Comp("Named", vec![v(1), T::Nil])]), T::Comp("Some", vec![v(1)])])), G::Diseq(v(1), T::Int(3))]),
        7 => Program::new(vec![0, 1], vec![G::Diseq(T::pair(v(0), v(1)), T::pair(T::Int(1), T::Int(2))), G::Conde(vec![vec![G::Eq(v(0), T::Int(1))], vec![G::Eq(v(1), T::Int(2))], vec![G::Eq(v(0), T::Int(1)), G::Eq(v(1), T::Int(2))]])]),
        8 => Program::new(vec![0], vec![G::Fresh(vec![1, 2], vec![G::InFdRange(T::list(vec![v(1), v(2)]), 0, 1), G::Eq(v(0), T::pair(v(1), v(2)))])]),
        _ => Program::new(vec![0], vec![G::Fresh(vec![1, 2, 3], vec![G::InFdRange(T::list(vec![v(1), v(2), v(3)]), 0, 1), G::Ltfd(v(1), v(2)), G::Eq(v(0), T::list(vec![T::Comp("Some", vec![v(3)]), T::Comp("Named", vec![T::Comp("", vec![v(1), T::Int(7)]), v(2)])]))])]),
    }
}

/// FD programs whose query variable is bound to lists and compounds of FD variables.
fn fd_compound_program(rng: &mut Rng) -> Program {
    let n = 2 + rng.below(2);
    let vars: Vec<V> = (1..=n as V).collect();
    let mut body = vec![];
    let lo = rng.range(-1, 1);
    let hi = lo + 1 + rng.range(0, 1);
    body.push(G::InFdRange(T::list(vars.iter().map(|x| v(*x)).collect()), lo, hi));
    if rng.chance(1, 2) {
        body.push(G::Ltefd(v(vars[0]), v(vars[1])));
    }
    if rng.chance(1, 3) {
        body.push(G::Diseqfd(v(vars[0]), v(vars[n - 1])));
    }
    let mut fields: Vec<T> = vars.iter().map(|x| v(*x)).collect();
    if rng.chance(1, 3) {
        fields.push(T::Int(9));
    }
    rng.shuffle(&mut fields);
    let mut build = |rng: &mut Rng, mut fs: Vec<T>| -> T {
        // fold the fields into nested compounds/lists
        while fs.len() > 1 {
            let a = fs.pop().unwrap();
            let b = fs.pop().unwrap();
            let t = match rng.below(6) {
                0 => T::pair(a, b),
                1 => T::Comp("Named", vec![a, b]),
                2 => T::Comp("", vec![a, b]),
                3 => T::list(vec![a, T::Comp("Some", vec![b])]),
                4 => T::Comp("Triple", vec![a, T::Int(0), b]),
                _ => T::improper(vec![a], b),
            };
            fs.push(t);
        }
        let t = fs.pop().unwrap();
        if rng.chance(1, 4) {
            T::Comp("Some", vec![t])
        } else {
            t
        }
    };
    let t = build(rng, fields);
    body.push(G::Eq(v(0), t));
    rng.shuffle(&mut body);
    Program::new(vec![0], vec![G::Fresh(vars, body)])
}

impl Check for C20 {
    fn id(&self) -> &'static str {
        "C20"
    }
    fn gens(&self) -> Vec<GenSpec> {
        vec![
            GenSpec { name: "tree", quick: 6000, thorough: 300_000 },
            GenSpec { name: "fdcomp", quick: 1500, thorough: 40_000 },
            GenSpec { name: "fixed", quick: FIXED.len() as u64, thorough: FIXED.len() as u64 },
        ]
    }
    fn rule(&self) -> &'static str {
        "'tree': random ==/!=/conde/fresh programs whose terms mix Pair, Triple, Named (named fields), Rust tuples and Option::Some with lists and literals to depth 2-3; 'fdcomp': FD variables over small signed ranges with ltefd/diseqfd, the query variable bound to nested compounds/lists holding those variables; 'fixed': hand-written corner cases (different types of equal arity, compound vs list, compound vs literal, occurs check through a compound, Option, tuple, FD labeling inside compound fields). Each program P is run on the real engine together with its tagged-list twin (every compound T(a,b) replaced by the list [\"#T\", a, b], every cons cell by [\"#.\", h, t] and [] by \"#nil\", so that all structure heads are constants and the encoding is a homomorphism for unification); the answers of P, encoded the same way, must equal the twin's answers as multisets of ground-instance sets; both are also compared with the reference interpreter. A compiled 'typed' lane covers compounds whose fields are themselves compound-typed (`struct TreeNode(LTerm, TreeNode, TreeNode)` and a named-field twin; typed logic variables `|q: TreeNode|`, `[]` as the empty value of a typed field, `_` as a typed wildcard, constructor terms nested in argument position, tuple-like and named compound patterns in match): the depth-bounded relation between a tree and the in-order list of its node names is run forward (ground tree -> list), backward (list of 1-4 names, with repeats -> every tree, tuple-like and named) and against partially specified trees with typed holes, name variables and wildcards, and two partially specified typed terms are unified (`a == b`); the answers, parsed from the result Display, must equal as a multiset the ones computed by enumerating all binary trees with that in-order sequence (resp. by the harness's own unification of the two patterns). Distinct = distinct program text; non-trivial = the program contains a compound term and a variable."
    }
    fn assumptions(&self) -> Vec<String> {
        vec!["the tagged-list encoding is injective on the terms generated (tags are strings starting with '#', which no generator emits otherwise)".into(), "Option::None converts to the empty list by design and is not generated as a compound".into()]
    }
    fn floor(&self, tier: Tier) -> u64 {
        match tier {
            Tier::Quick => 3000,
            Tier::Thorough => 100_000,
        }
    }
    fn required_counters(&self) -> Vec<&'static str> {
        vec!["twin_compared", "ref_compared", "answers_with_compounds", "fd_answers_in_compounds", "typed_compared_with_enumeration", "typed_forward", "typed_backward_named", "typed_backward_unnamed", "typed_partial", "typed_same"]
    }
    fn run_batch(&self, tier: Tier, seed: u64) -> Option<Merged> {
        Some(super::typed::run_typed_lane("C20", tier, seed, None))
    }
    fn run_case(&self, gen: &str, seed: u64, index: u64, tier: Tier) -> CaseOut {
        if gen == "typed" {
            // replay of one case of the typed-compound lane (violation files name them `typed:<k>`)
            let merged = super::typed::run_typed_lane("C20", tier, seed, Some(index as usize));
            let mut out = CaseOut::default();
            for (_, v) in merged.violations {
                out.violations.push(v);
            }
            for (k, n) in merged.counters {
                out.count(&k, n);
            }
            out.inconclusive = merged.inconclusive;
            return out;
        }
        let mut out = CaseOut::default();
        let mut rng = Rng::for_case(seed, gen, index);
        let prog = match gen {
            "fixed" => fixed_program(index as usize),
            "fdcomp" => fd_compound_program(&mut rng),
            _ => {
                let mut c = TreeCfg::default();
                c.compounds = true;
                c.nq = 1 + rng.below(2);
                c.max_goals = 5;
                c.hostile_diseq = rng.chance(1, 2);
                if tier == Tier::Thorough && rng.chance(1, 3) {
                    c.depth = 3;
                }
                TreeGen::new(&mut rng, c).program()
            }
        };
        let tw = twin(&prog);
        let cfg = RunCfg::default();
        let real = run_query(&prog, &cfg);
        out.count("programs", 1);
        if !usable(&real, &mut out, &prog, "query") {
            return out;
        }
        let real_tw = run_query(&tw, &cfg);
        if !usable(&real_tw, &mut out, &tw, "twin query") {
            return out;
        }
        for raw in real.raw.iter() {
            for (sig, msg) in c03_monitor(raw) {
                out.violate("M-c03", &sig, format!("{} | answer: {}", msg, raw.display), format!("{}", prog));
            }
        }
        let uni: Vec<T> = universe(&prog, &[]).iter().map(|t| t.tagged()).collect();
        let tagged: Vec<Ans> = real.answers.iter().map(tag_ans).collect();
        out.count("twin_compared", 1);
        fn has_comp(t: &T) -> bool {
            match t {
                T::Comp(..) => true,
                T::Cons(h, tl) => has_comp(h) || has_comp(tl),
                _ => false,
            }
        }
        out.count("answers_with_compounds", real.answers.iter().filter(|a| has_comp(&a.tuple)).count() as u64);
        if gen == "fdcomp" || (gen == "fixed" && index >= 8) {
            out.count("fd_answers_in_compounds", real.answers.iter().filter(|a| has_comp(&a.tuple)).count() as u64);
        }
        if cut_at_cap(real.ended, real.answers.len(), real_tw.ended, real_tw.answers.len()) {
            out.count("comparisons_skipped_answer_cap", 1);
        } else if let Cmp::Different(why) = compare_multisets(&tagged, &real_tw.answers, &uni) {
            out.violate(
                "M-meta",
                "compound program and its tagged-list twin disagree",
                format!("{} | compound answers {} | twin answers {} | twin: {}", why, show_answers(&real.answers), show_answers(&real_tw.answers), tw),
                format!("{}", prog),
            );
        }
        match ref_answers(&prog, false) {
            Ok(rans) => {
                out.count("ref_compared", 1);
                let uni2 = universe(&prog, &[]);
                if cut_at_cap(real.ended, real.answers.len(), true, rans.len()) {
                    out.count("comparisons_skipped_answer_cap", 1);
                } else if let Cmp::Different(why) = compare_multisets(&real.answers, &rans, &uni2) {
                    out.violate("M-ref", "answers differ from the reference semantics", format!("{} | real {} | reference {}", why, show_answers(&real.answers), show_answers(&rans)), format!("{}", prog));
                }
            }
            Err(e) => out.inconclusive.push(format!("reference: {:?}", e)),
        }
        let mut has_c = false;
        let mut has_v = false;
        for g in prog.body.iter() {
            g.visit_terms(&mut |t| {
                if has_comp(t) {
                    has_c = true;
                }
                if !t.vars().is_empty() {
                    has_v = true;
                }
            });
        }
        if has_c && has_v {
            out.distinct.push(program_key(&prog));
        }
        if index % 1499 == 2 || (gen == "fixed" && index == 8) {
            out.sample = Some(sample_json(&prog, &real.answers, &format!("twin answers: {}", show_answers(&real_tw.answers))));
        }
        let mut seen = BTreeSet::new();
        out.violations.retain(|v| seen.insert(v.signature.clone()));
        out
    }
}
