//! C21 — LTerm equality, hashing and list operations are consistent.
use crate::build::*;
use crate::framework::*;
use crate::term::{T, V};
use crate::util::{Json, Rng};
use proto_vulcan::lterm::LTerm;
use std::collections::hash_map::DefaultHasher;
use std::collections::{BTreeSet, HashMap};
use std::hash::{Hash, Hasher};
use std::panic::{catch_unwind, AssertUnwindSafe};

pub struct C21;

fn leaves() -> Vec<T> {
    vec![T::Int(1), T::Int(2), T::Char('a'), T::s("s"), T::Bool(true), T::Var(0), T::Var(1), T::Nil]
}

/// Terms of depth <= 1 over all literal kinds, two variables and [] (enumerated lane), plus a
/// selection of depth-2 shapes.
fn small_terms() -> Vec<T> {
    let l = leaves();
    let few = [T::Int(1), T::Var(0), T::Nil, T::s("s")];
    let mut out = l.clone();
    for a in l.iter() {
        out.push(T::list(vec![a.clone()]));
        out.push(T::Comp("Some", vec![a.clone()]));
        for b in few.iter() {
            out.push(T::list(vec![a.clone(), b.clone()]));
            out.push(T::list(vec![b.clone(), a.clone()]));
            if *b != T::Nil {
                out.push(T::improper(vec![a.clone()], b.clone()));
            }
            out.push(T::pair(a.clone(), b.clone()));
            out.push(T::Comp("Named", vec![a.clone(), b.clone()]));
            out.push(T::Comp("", vec![a.clone(), b.clone()]));
        }
    }
    // proper/improper pairs with the same element sequence, nested lists
    for a in few.iter() {
        for b in few.iter() {
            for c in [T::Int(2), T::Var(1)].iter() {
                out.push(T::list(vec![a.clone(), b.clone(), c.clone()]));
                out.push(T::improper(vec![a.clone(), b.clone()], c.clone()));
                out.push(T::list(vec![T::list(vec![a.clone(), b.clone()]), c.clone()]));
                out.push(T::list(vec![T::improper(vec![a.clone()], c.clone()), b.clone()]));
                out.push(T::Comp("Triple", vec![a.clone(), T::list(vec![b.clone()]), c.clone()]));
            }
        }
    }
    let mut seen = BTreeSet::new();
    out.retain(|t| seen.insert(t.clone()));
    out
}

fn rand_term(rng: &mut Rng, depth: usize) -> T {
    let l = leaves();
    if depth == 0 || rng.chance(2, 5) {
        return l[rng.below(l.len())].clone();
    }
    let sub = |rng: &mut Rng| rand_term(rng, depth - 1);
    match rng.below(8) {
        0 | 1 | 2 => T::list((0..rng.below(4)).map(|_| sub(rng)).collect()),
        3 | 4 => {
            let items: Vec<T> = (0..1 + rng.below(3)).map(|_| sub(rng)).collect();
            let tail = match rng.below(3) {
                0 => T::Var(rng.below(2) as V),
                1 => T::Int(rng.range(1, 3)),
                _ => sub(rng),
            };
            T::improper(items, tail)
        }
        5 => T::pair(sub(rng), sub(rng)),
        6 => T::Comp("Named", vec![sub(rng), sub(rng)]),
        _ => T::Comp("Some", vec![sub(rng)]),
    }
}

fn fixed_hash(l: &L) -> u64 {
    let mut h = DefaultHasher::new();
    l.hash(&mut h);
    h.finish()
}

/// The element sequence a term denotes as a list (improper tail as final element).
fn seq(t: &T) -> Vec<T> {
    let (items, tail) = t.unroll();
    let mut v: Vec<T> = items.into_iter().cloned().collect();
    if *tail != T::Nil {
        v.push(tail.clone());
    }
    v
}

fn is_improper(t: &T) -> bool {
    matches!(t, T::Cons(..)) && *t.unroll().1 != T::Nil
}

/// Display of the harness model, in proto-vulcan's documented list syntax.
fn model_display(t: &T) -> Option<String> {
    Some(match t {
        T::Int(i) => format!("{}", i),
        T::Bool(b) => format!("{}", b),
        T::Char(c) => format!("'{}'", c),
        T::Str(s) => format!("\"{}\"", s),
        T::Var(v) => format!("v{}", v),
        T::Nil => "[]".to_string(),
        T::Cons(..) => {
            let (items, tail) = t.unroll();
            let mut parts = vec![];
            for it in items {
                parts.push(model_display(it)?);
            }
            if *tail == T::Nil {
                format!("[{}]", parts.join(", "))
            } else {
                format!("[{} | {}]", parts.join(", "), model_display(tail)?)
            }
        }
        _ => return None, // compound Display is Debug-based and not part of the property
    })
}

struct Ctx {
    env: Env,
    names: HashMap<L, V>,
}

impl Ctx {
    fn new() -> Ctx {
        let mut env = Env::new();
        let mut names = HashMap::new();
        for v in 0..2 {
            let l = env.declare(v);
            names.insert(l, v);
        }
        Ctx { env, names }
    }
    fn l(&self, t: &T) -> L {
        to_lterm(&self.env, t)
    }
    fn t(&mut self, l: &L) -> T {
        let mut next = 500;
        from_lterm(l, &mut self.names, &mut next)
    }
}

fn viol(out: &mut CaseOut, sig: &str, msg: String, input: String) {
    out.violate("M-model", sig, msg, input);
}

fn check_pair(cx: &mut Ctx, a: &T, b: &T, out: &mut CaseOut) {
    let la = cx.l(a);
    let lb = cx.l(b);
    let model = a == b;
    out.count("eq_pairs_checked", 1);
    let r1 = la == lb;
    let r2 = lb == la;
    if r1 != model || r2 != model {
        viol(out, "LTerm == disagrees with structural equality", format!("{} == {}: a==b {}, b==a {}, structural {}", a, b, r1, r2, model), format!("{} / {}", a, b));
    }
    if model {
        out.count("equal_pairs_hash_checked", 1);
        if fixed_hash(&la) != fixed_hash(&lb) {
            viol(out, "equal terms hash differently", format!("{} built twice: hashes {:x} vs {:x}", a, fixed_hash(&la), fixed_hash(&lb)), format!("{}", a));
        }
    }
    // contains on a list holding b
    if let T::Cons(..) | T::Nil = a {
        let expect = seq(a).iter().any(|e| e == b);
        if la.contains(&lb) != expect {
            viol(out, "contains disagrees with the element sequence", format!("{}.contains({}) = {}, model {}", a, b, la.contains(&lb), expect), format!("{} / {}", a, b));
        }
    }
}

/// Run the list-operation checks; a panic of the library on a documented-safe operation is a violation.
fn check_list_ops(cx: &mut Ctx, t: &T, out: &mut CaseOut) {
    let _ = crate::run::take_last_panic();
    let r = catch_unwind(AssertUnwindSafe(|| check_list_ops_inner(cx, t, out)));
    if r.is_err() {
        let p = crate::run::take_last_panic().unwrap_or_default();
        out.violate("M-panic", &format!("panic {} at {}", p.message, p.location), format!("a list operation on {} panicked: '{}' at {}", t, p.message, p.location), format!("{}", t));
    }
}

/// `term == value` for the convenience impls (bool, isize, char, String, str, &str, LValue), in both
/// directions, for `LTerm` and for `LResult` (a query result wrapping the term): true exactly when
/// the term is that literal.
fn check_value_eq(t: &T, l: &L, out: &mut CaseOut) {
    use proto_vulcan::lresult::LResult;
    use proto_vulcan::lvalue::LValue;
    use proto_vulcan::state::constraint::store::ConstraintStore;
    let res: LResult<U, E> = LResult(l.clone(), std::rc::Rc::new(ConstraintStore::new()));
    let input = format!("{}", t);
    let mut bad = |what: String| {
        out.violate("M-model", "comparison of a term with a Rust value disagrees with the term being that literal", what, input.clone());
    };
    let mut n = 0u64;
    for b in [true, false] {
        let m = *t == T::Bool(b);
        n += 1;
        let got = [*l == b, b == *l, res == b, b == res, *l == LValue::Bool(b), LValue::Bool(b) == *l, res == LValue::Bool(b), LValue::Bool(b) == res];
        if got.iter().any(|g| *g != m) {
            bad(format!("{} vs bool {}: {:?}, model {}", t, b, got, m));
        }
    }
    for i in [-1isize, 0, 1, 2, 3, 7] {
        let m = *t == T::Int(i as i64);
        n += 1;
        let got = [*l == i, i == *l, res == i, i == res, *l == LValue::Number(i), LValue::Number(i) == *l, res == LValue::Number(i), LValue::Number(i) == res];
        if got.iter().any(|g| *g != m) {
            bad(format!("{} vs isize {}: {:?}, model {}", t, i, got, m));
        }
    }
    for c in ['a', 'b', 'x'] {
        let m = *t == T::Char(c);
        n += 1;
        let got = [*l == c, c == *l, res == c, c == res, *l == LValue::Char(c), LValue::Char(c) == *l, res == LValue::Char(c), LValue::Char(c) == res];
        if got.iter().any(|g| *g != m) {
            bad(format!("{} vs char {:?}: {:?}, model {}", t, c, got, m));
        }
    }
    for s in ["", "a", "s", "a b", "true", "1"] {
        let m = *t == T::Str(s.to_string());
        n += 1;
        let owned = s.to_string();
        let got = [*l == s, s == *l, *l == *s, *s == *l, *l == owned, owned == *l, res == s, s == res, res == owned, owned == res, *l == LValue::String(owned.clone()), LValue::String(owned.clone()) == *l];
        if got.iter().any(|g| *g != m) {
            bad(format!("{} vs str {:?}: {:?}, model {}", t, s, got, m));
        }
    }
    // a literal as a bare LValue against Rust values of every kind
    let lv = match t {
        T::Bool(b) => Some(LValue::Bool(*b)),
        T::Int(i) => Some(LValue::Number(*i as isize)),
        T::Char(c) => Some(LValue::Char(*c)),
        T::Str(s) => Some(LValue::String(s.clone())),
        _ => None,
    };
    if let Some(lv) = lv {
        for b in [true, false] {
            let m = *t == T::Bool(b);
            n += 1;
            if (lv == b) != m || (b == lv) != m {
                bad(format!("LValue {:?} vs bool {}: {} / {}, model {}", lv, b, lv == b, b == lv, m));
            }
        }
        for i in [-1isize, 0, 1, 2, 3] {
            let m = *t == T::Int(i as i64);
            n += 1;
            if (lv == i) != m || (i == lv) != m {
                bad(format!("LValue {:?} vs isize {}: {} / {}, model {}", lv, i, lv == i, i == lv, m));
            }
        }
        for c in ['a', 'x'] {
            let m = *t == T::Char(c);
            n += 1;
            if (lv == c) != m || (c == lv) != m {
                bad(format!("LValue {:?} vs char {:?}: {} / {}, model {}", lv, c, lv == c, c == lv, m));
            }
        }
        for s in ["", "a", "s", "1", "true"] {
            let m = *t == T::Str(s.to_string());
            n += 1;
            let owned = s.to_string();
            let got = [lv == s, s == lv, lv == *s, *s == lv, lv == owned, owned == lv];
            if got.iter().any(|g| *g != m) {
                bad(format!("LValue {:?} vs str {:?}: {:?}, model {}", lv, s, got, m));
            }
        }
    }
    // LResult against LTerm
    n += 1;
    if !(res == *l && *l == res) {
        bad(format!("{}: LResult == LTerm of the same term is false", t));
    }
    out.count("value_comparisons_checked", n);
}

fn check_list_ops_inner(cx: &mut Ctx, t: &T, out: &mut CaseOut) {
    let l = cx.l(t);
    let s = seq(t);
    let input = format!("{}", t);
    out.count("terms_checked_list_ops", 1);
    // reflexivity
    if !(l == l.clone()) {
        viol(out, "LTerm == is not reflexive", input.clone(), input.clone());
    }
    // comparisons with Rust values, from both sides, for LTerm, LValue-wrapped values and LResult
    check_value_eq(t, &l, out);
    // classification
    let exp = (matches!(t, T::Cons(..) | T::Nil), *t == T::Nil, is_improper(t));
    let got = (l.is_list(), l.is_empty(), l.is_improper());
    if exp != got {
        viol(out, "is_list/is_empty/is_improper disagree with the term's shape", format!("{}: (is_list, is_empty, is_improper) = {:?}, model {:?}", t, got, exp), input.clone());
    }
    // iteration
    let it: Vec<T> = l.iter().map(|e| cx.t(e)).collect();
    if it != s {
        viol(out, "iter() disagrees with the element sequence", format!("{}: iter gives {:?}, model {:?}", t, it.iter().map(|x| format!("{}", x)).collect::<Vec<_>>(), s.iter().map(|x| format!("{}", x)).collect::<Vec<_>>()), input.clone());
    }
    let it2: Vec<T> = (&l).into_iter().map(|e| cx.t(e)).collect();
    if it2 != s {
        viol(out, "IntoIterator for &LTerm disagrees with the element sequence", input.clone(), input.clone());
    }
    // head / tail
    match t {
        T::Cons(h, tl) => {
            let hh = l.head().map(|x| cx.t(x));
            let tt = l.tail().map(|x| cx.t(x));
            if hh.as_ref() != Some(&**h) || tt.as_ref() != Some(&**tl) {
                viol(out, "head()/tail() disagree with the cons cell", format!("{}: head {:?} tail {:?}", t, hh.map(|x| format!("{}", x)), tt.map(|x| format!("{}", x))), input.clone());
            }
        }
        _ => {
            if l.head().is_some() || l.tail().is_some() {
                viol(out, "head()/tail() of a non-cons term is not None", input.clone(), input.clone());
            }
        }
    }
    // indexing, incl. out of range (must panic, like Vec)
    for i in 0..=s.len() {
        let r = catch_unwind(AssertUnwindSafe(|| cx_free_t(&l[i])));
        let _ = crate::run::take_last_panic();
        match (r, s.get(i)) {
            (Ok(x), Some(m)) => {
                let x = cx.t(&x);
                if x != *m {
                    viol(out, "Index disagrees with the element sequence", format!("{}[{}] = {}, model {}", t, i, x, m), input.clone());
                }
            }
            (Err(_), None) => out.count("out_of_range_index_panics_like_vec", 1),
            (Ok(_), None) => viol(out, "Index out of range did not panic", format!("{}[{}]", t, i), input.clone()),
            (Err(_), Some(_)) => viol(out, "Index in range panicked", format!("{}[{}]", t, i), input.clone()),
        }
    }
    // display (lists of literals / variables only)
    if let Some(d) = model_display(t) {
        let got = format!("{}", l);
        if got != d {
            viol(out, "list Display disagrees with the element sequence", format!("Display gives {:?}, model {:?}", got, d), input.clone());
        }
        out.count("displays_checked", 1);
    }
    // constructors from the element sequence
    if let T::Cons(..) | T::Nil = t {
        let elems: Vec<L> = s.iter().map(|e| cx.l(e)).collect();
        if !is_improper(t) {
            let a = LTerm::from_vec(elems.clone());
            let b = LTerm::from_array(&elems);
            let c: L = elems.clone().into_iter().collect();
            for (name, x) in [("from_vec", &a), ("from_array", &b), ("collect", &c)].iter() {
                if cx.t(x) != *t {
                    viol(out, "list constructor does not rebuild the list from its elements", format!("{}({}) = {}", name, t, cx.t(x)), input.clone());
                }
                if !(**x == l) || fixed_hash(x) != fixed_hash(&l) {
                    viol(out, "list built by a different constructor is not ==/hash-equal to the same list", format!("{} of {}", name, t), input.clone());
                }
            }
            // extend by 0..2 elements
            for extra in [vec![], vec![T::Int(7)], vec![T::Var(1), T::list(vec![T::Int(7)])]].iter() {
                let mut x = l.clone();
                x.extend(extra.iter().map(|e| cx.l(e)));
                let mut m = s.clone();
                m.extend(extra.iter().cloned());
                if cx.t(&x) != T::list(m.clone()) {
                    viol(out, "extend disagrees with Vec::extend on the element sequence", format!("{} extended by {:?} = {}", t, extra.iter().map(|e| format!("{}", e)).collect::<Vec<_>>(), cx.t(&x)), input.clone());
                }
                // the original must not have changed (Rc::make_mut copy-on-write)
                if cx.t(&l) != *t {
                    viol(out, "extending a clone changed the original list", input.clone(), input.clone());
                }
                out.count("extends_checked", 1);
            }
        } else {
            let a = LTerm::improper_from_vec(elems.clone());
            let b = LTerm::improper_from_array(&elems);
            for (name, x) in [("improper_from_vec", &a), ("improper_from_array", &b)].iter() {
                if cx.t(x) != *t {
                    viol(out, "improper list constructor does not rebuild the list from its elements", format!("{}({}) = {}", name, t, cx.t(x)), input.clone());
                }
            }
            // proper list with the same element sequence must be a DIFFERENT term
            let p = LTerm::from_vec(elems.clone());
            if p == l {
                viol(out, "an improper list equals the proper list with the same element sequence", format!("{} == {}", t, cx.t(&p)), input.clone());
            }
            out.count("proper_improper_twins_checked", 1);
        }
        // iter_mut: overwrite every element; length preserved; a clone keeps the old elements
        let keep = l.clone();
        let mut x = l.clone();
        let mut n = 0;
        for e in x.iter_mut() {
            *e = cx.l(&T::Int(99));
            n += 1;
        }
        let expect = if is_improper(t) { T::improper(vec![T::Int(99); s.len() - 1], T::Int(99)) } else { T::list(vec![T::Int(99); s.len()]) };
        if n != s.len() || cx.t(&x) != expect {
            viol(out, "iter_mut does not visit / update exactly the elements of the list", format!("{}: visited {}, result {}, model {}", t, n, cx.t(&x), expect), input.clone());
        }
        if cx.t(&keep) != *t {
            viol(out, "mutating through iter_mut changed a clone of the list", input.clone(), input.clone());
        }
        // IndexMut
        if !s.is_empty() {
            let mut y = l.clone();
            y[s.len() - 1] = cx.l(&T::Int(98));
            let mut m = s.clone();
            let last = m.len() - 1;
            m[last] = T::Int(98);
            let expect = if is_improper(t) {
                let tail = m.pop().unwrap();
                T::improper(m, tail)
            } else {
                T::list(m)
            };
            if cx.t(&y) != expect {
                viol(out, "IndexMut does not update the indexed element", format!("{}: result {}, model {}", t, cx.t(&y), expect), input.clone());
            }
        }
    } else {
        // extend on a non-list must panic (documented)
        let mut x = l.clone();
        let one = cx.l(&T::Int(1));
        let r = catch_unwind(AssertUnwindSafe(|| x.extend(Some(one))));
        let _ = crate::run::take_last_panic();
        if r.is_ok() {
            viol(out, "extend on a non-list term did not panic", input.clone(), input.clone());
        } else {
            out.count("extend_on_non_list_panics", 1);
        }
    }
}

fn cx_free_t(l: &L) -> L {
    l.clone()
}

impl Check for C21 {
    fn id(&self) -> &'static str {
        "C21"
    }
    fn gens(&self) -> Vec<GenSpec> {
        let n = small_terms().len() as u64;
        vec![GenSpec { name: "pairs", quick: n, thorough: n }, GenSpec { name: "random", quick: 20_000, thorough: 1_000_000 }]
    }
    fn exhaustive(&self) -> bool {
        false
    }
    fn rule(&self) -> &'static str {
        "'pairs' (enumerated, seed-independent): every ordered pair of the terms of depth <= 1 (and selected depth-2 shapes: proper/improper twins with the same element sequence, nested lists, improper lists inside lists, Triple) over all four literal kinds, two variables, [], proper and improper lists and the compound types Pair, Named, tuple, Some; the second term is built independently (different Rc cells): == must equal structural equality in both directions, equal terms must have equal hashes under a fixed-key hasher, contains must follow the element sequence. Every term: reflexivity, comparison with Rust values (bool, isize, char, String, str, &str, LValue) from both sides for LTerm and for an LResult wrapping it (true exactly when the term is that literal), is_list/is_empty/is_improper, iter and &-IntoIterator vs the element sequence (improper tail as final element), head/tail, Index incl. out-of-range (must panic like Vec), list Display vs a Vec-based printer, from_vec/from_array/collect/improper_from_vec/improper_from_array round trips with ==/hash agreement across constructors, an improper list must differ from the proper list with the same elements, extend vs Vec::extend (and must not change a clone), iter_mut (visits exactly the elements, updates in place, does not change a clone), IndexMut, extend on a non-list must panic. 'random': the same on random terms to depth 3 and random pairs. Distinct = distinct term (pair) text; non-trivial = every case."
    }
    fn assumptions(&self) -> Vec<String> {
        vec!["model: the harness's own term type with derived structural equality; Vec for sequences".into(), "Display is compared for lists of literals/variables only (compound Display is Debug-based)".into()]
    }
    fn floor(&self, tier: Tier) -> u64 {
        match tier {
            Tier::Quick => 10_000,
            Tier::Thorough => 300_000,
        }
    }
    fn required_counters(&self) -> Vec<&'static str> {
        vec!["eq_pairs_checked", "value_comparisons_checked", "equal_pairs_hash_checked", "terms_checked_list_ops", "displays_checked", "extends_checked", "proper_improper_twins_checked", "out_of_range_index_panics_like_vec", "extend_on_non_list_panics"]
    }
    fn miri_lane(&self, tier: Tier) -> Option<(Vec<(&'static str, u64, u64)>, bool)> {
        // thorough only: the same run_case code interpreted by Miri (Rc::make_mut / copy-on-write paths)
        if tier == Tier::Thorough {
            Some((vec![("random", 0, 32), ("pairs", 136, 2)], false))
        } else {
            None
        }
    }
    fn run_case(&self, gen: &str, seed: u64, index: u64, _tier: Tier) -> CaseOut {
        let mut out = CaseOut::default();
        let mut cx = Ctx::new();
        if gen == "pairs" {
            let terms = small_terms();
            let a = terms[index as usize % terms.len()].clone();
            check_list_ops(&mut cx, &a, &mut out);
            for b in terms.iter() {
                check_pair(&mut cx, &a, b, &mut out);
                out.distinct.push(crate::util::fnv(&format!("{} / {}", a, b)));
            }
            if index % 97 == 0 {
                out.sample = Some(Json::obj().with("term", Json::s(format!("{}", a))).with("compared_with", Json::Int(terms.len() as i64)));
            }
        } else {
            let mut rng = Rng::for_case(seed, gen, index);
            let a = rand_term(&mut rng, 3);
            let b = if rng.chance(1, 3) { a.clone() } else { rand_term(&mut rng, 3) };
            check_list_ops(&mut cx, &a, &mut out);
            check_pair(&mut cx, &a, &b, &mut out);
            // near-miss: same elements, proper vs improper
            if let T::Cons(..) = a {
                let s = seq(&a);
                let twin = if is_improper(&a) { T::list(s) } else if s.len() >= 2 { T::improper(s[..s.len() - 1].to_vec(), s[s.len() - 1].clone()) } else { a.clone() };
                check_pair(&mut cx, &a, &twin, &mut out);
            }
            out.distinct.push(crate::util::fnv(&format!("{} / {}", a, b)));
            if index % 4999 == 0 {
                out.sample = Some(Json::obj().with("term", Json::s(format!("{}", a))).with("other", Json::s(format!("{}", b))));
            }
        }
        let mut seen = BTreeSet::new();
        out.violations.retain(|v| seen.insert(v.signature.clone()));
        out
    }
}
