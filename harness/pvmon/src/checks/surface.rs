//! Surface-syntax lane shared by C13, C14 and C15: generated programs are written as Rust source
//! that uses proto_vulcan_query!/proto_vulcan_closure!/lterm!, compiled against the current tree
//! (hooks on), run, and their printed answers compared with the reference semantics, with the
//! API-built twin of the same AST and, for C15, with an alpha-renamed emission.
use super::common::*;
use crate::ast::*;
use crate::canon::*;
use crate::emit::*;
use crate::framework::*;
use crate::refsem::Ref;
use crate::run::*;
use crate::term::T;
use crate::util::{bump_by, fnv, Json};
use std::collections::BTreeMap;
use std::path::PathBuf;
use std::process::Command;

pub struct SurfCase {
    pub prog: Program,
    pub naming: Naming,
    /// index of the case whose answers must be identical (alpha-renamed twin), if any
    pub twin_of: Option<usize>,
    /// answers are an infinite stream: only a prefix is checked for soundness
    pub infinite: bool,
    /// the whole program is depth-first (`dfs { }`): the SEQUENCE of answers must be the reference's
    pub ordered: bool,
    pub tag: &'static str,
}

pub struct LtermCase {
    pub term: T,
}

pub struct SurfOutcome {
    pub answers: Vec<SurfaceAnswer>,
    pub status: String,
}

const MAX_ANSWERS: usize = 40;
const BUDGET: u64 = 300_000;
const PER_FILE: usize = 120;

fn crate_dir(id: &str) -> PathBuf {
    PathBuf::from(verif_root()).join("harness").join("pvgen").join(id)
}

/// Write, build and run the generated crate. Ok(per-case outcome, lterm lines) or Err(violation-ish message).
pub fn build_and_run(id: &str, cases: &[SurfCase], lterms: &[LtermCase], seed: u64, merged: &mut Merged) -> Result<(Vec<SurfOutcome>, Vec<String>), (String, String, String)> {
    let dir = crate_dir(id);
    let _ = std::fs::remove_dir_all(dir.join("src"));
    std::fs::create_dir_all(dir.join("src")).map_err(|e| ("harness".to_string(), format!("cannot create {}: {}", dir.display(), e), String::new()))?;
    std::fs::create_dir_all(dir.join(".cargo")).ok();
    std::fs::write(
        dir.join("Cargo.toml"),
        format!(
            "[package]\nname = \"pvgen_{}\"\nversion = \"0.1.0\"\nedition = \"2018\"\n\n[dependencies]\nproto-vulcan = {{ path = \"{}\" }}\n\n[profile.dev]\nopt-level = 0\ndebug = 0\n\n[workspace]\n",
            id.to_lowercase(),
            std::env::var("PVMON_REPO").unwrap_or_else(|_| "/repo".to_string())
        ),
    )
    .ok();
    std::fs::write(dir.join(".cargo/config.toml"), "[net]\noffline = true\n\n[build]\nrustflags = [\"--cfg\", \"terohuttunen_proto_vulcan_verif\", \"-Awarnings\"]\n").ok();
    let _ = std::fs::copy(PathBuf::from(verif_root()).join("harness").join("Cargo.lock"), dir.join("Cargo.lock"));
    std::fs::write(dir.join("src/helper.rs"), HELPER_RS).ok();
    // program files
    let header = "#![allow(unused_imports, non_snake_case, dead_code)]\nuse proto_vulcan::prelude::*;\nuse proto_vulcan::relation::{member, member1, append, rember, permute, distinct, cons, first, rest, empty, always, never};\nuse proto_vulcan::operator::{cond, dfs, conda, condu, onceo, matche, matcha, matchu};\nuse proto_vulcan::goal::{AnyGoal, InferredGoal};\nuse proto_vulcan::engine::Engine;\nuse proto_vulcan::user::User;\nuse crate::helper;\n\n#[compound]\npub struct Pair(LTerm, LTerm);\n#[compound]\npub struct Triple(LTerm, LTerm, LTerm);\n#[compound]\npub struct Named { a: LTerm, b: LTerm }\n\n";
    let mut main = String::from("mod helper;\n");
    let mut calls = String::new();
    // (file, first line, last line) -> case index, for attributing compile errors
    let mut spans: Vec<(String, usize, usize, usize)> = vec![];
    let nfiles = (cases.len() + PER_FILE - 1) / PER_FILE;
    for f in 0..nfiles {
        let fname = format!("gen_{}", f);
        let mut src = String::from(header);
        for k in (f * PER_FILE)..((f + 1) * PER_FILE).min(cases.len()) {
            let c = &cases[k];
            let mut em = Emitter::new(c.naming, &format!("p{}", k), seed ^ (k as u64 * 7919));
            let text = em.program(&c.prog, MAX_ANSWERS, BUDGET);
            let first = src.lines().count() + 1;
            src.push_str(&text);
            src.push('\n');
            let last = src.lines().count();
            spans.push((format!("src/{}.rs", fname), first, last, k));
            calls.push_str(&format!("    helper::run_one(\"p{}\", {}::p{});\n", k, fname, k));
        }
        std::fs::write(dir.join("src").join(format!("{}.rs", fname)), src).ok();
        main.push_str(&format!("mod {};\n", fname));
    }
    // lterm! cases
    let mut lsrc = String::from(header);
    lsrc.push_str("pub fn run() {\n");
    for (k, lc) in lterms.iter().enumerate() {
        let em = Emitter::new(Naming::Distinct, "lt", 1);
        let mut names = BTreeMap::new();
        let mut decl = String::new();
        for v in lc.term.vars() {
            names.insert(v, format!("v{}", v));
            decl.push_str(&format!("let v{}: LTerm = LTerm::var(\"v{}\"); ", v, v));
        }
        lsrc.push_str(&format!("    {{ {}let t: LTerm = lterm!({}); let mut s = String::new(); helper::ser(&t, &mut s); println!(\"LTERM {} {{}}\", s); }}\n", decl, em.term(&lc.term, &names), k));
    }
    lsrc.push_str("}\n");
    std::fs::write(dir.join("src/lterms.rs"), lsrc).ok();
    main.push_str("mod lterms;\n");
    main.push_str(&format!("fn main() {{\n    std::panic::set_hook(Box::new(|_| {{}}));\n    let h = std::thread::Builder::new().stack_size(1 << 29).spawn(|| {{\n        lterms::run();\n{}    }}).unwrap();\n    h.join().unwrap();\n}}\n", calls));
    std::fs::write(dir.join("src/main.rs"), main).ok();
    // build
    let target = PathBuf::from(verif_root()).join("harness").join("target").join("pvgen");
    let t0 = std::time::Instant::now();
    let build = Command::new("cargo").arg("build").arg("--offline").current_dir(&dir).env("CARGO_TARGET_DIR", &target).env("CARGO_NET_OFFLINE", "true").output();
    bump_by(&mut merged.counters, "generated_crate_build_seconds", t0.elapsed().as_secs());
    let build = match build {
        Ok(b) => b,
        Err(e) => return Err(("harness".into(), format!("cannot run cargo: {}", e), String::new())),
    };
    if !build.status.success() {
        let err = String::from_utf8_lossy(&build.stderr).to_string();
        // did proto-vulcan itself fail to build? then this is not a verdict about generated programs
        if err.contains("could not compile `proto-vulcan") || err.contains("could not compile `proto_vulcan") {
            return Err(("harness".into(), "proto-vulcan itself does not compile in the generated crate".into(), err.chars().take(1500).collect()));
        }
        // first diagnostic located in a generated file
        let mut loc: Option<(String, usize)> = None;
        let mut first_diag = String::new();
        let lines: Vec<&str> = err.lines().collect();
        for (i, l) in lines.iter().enumerate() {
            if let Some(p) = l.find("--> src/gen_") {
                let rest = &l[p + 4..];
                let mut it = rest.split(':');
                let file = it.next().unwrap_or("").to_string();
                let line = it.next().and_then(|x| x.parse::<usize>().ok()).unwrap_or(0);
                loc = Some((file, line));
                let start = i.saturating_sub(2);
                first_diag = lines[start..(i + 8).min(lines.len())].join("\n");
                break;
            }
        }
        return match loc {
            Some((file, line)) => {
                let k = spans.iter().find(|(f, a, b, _)| *f == file && *a <= line && line <= *b).map(|x| x.3);
                match k {
                    Some(k) => Err(("compile".into(), format!("generated well-formed program p{} ({}) does not compile:\n{}", k, cases[k].tag, first_diag), format!("{}", cases[k].prog))),
                    None => Err(("harness".into(), format!("compile error outside any generated program:\n{}", first_diag), String::new())),
                }
            }
            None => Err(("harness".into(), format!("generated crate failed to build:\n{}", err.chars().take(1500).collect::<String>()), String::new())),
        };
    }
    // run
    let exe = target.join("debug").join(format!("pvgen_{}", id.to_lowercase()));
    let run = Command::new(&exe).output().map_err(|e| ("harness".to_string(), format!("cannot run {}: {}", exe.display(), e), String::new()))?;
    let stdout = String::from_utf8_lossy(&run.stdout).to_string();
    let mut outcomes: Vec<SurfOutcome> = (0..cases.len()).map(|_| SurfOutcome { answers: vec![], status: "missing".into() }).collect();
    let mut ltlines = vec![String::new(); lterms.len()];
    for line in stdout.lines() {
        if let Some(rest) = line.strip_prefix("ANS p") {
            let mut it = rest.splitn(2, ' ');
            let k: usize = it.next().and_then(|x| x.parse().ok()).unwrap_or(usize::MAX);
            let payload = it.next().unwrap_or("");
            if k < outcomes.len() {
                if payload == "NOTFUSED" {
                    outcomes[k].status = "notfused".into();
                } else if let Some(a) = parse_answer(payload) {
                    outcomes[k].answers.push(a);
                } else {
                    outcomes[k].status = format!("unparsable answer line: {}", payload.chars().take(120).collect::<String>());
                }
            }
        } else if let Some(rest) = line.strip_prefix("END p") {
            let mut it = rest.splitn(2, ' ');
            let k: usize = it.next().and_then(|x| x.parse().ok()).unwrap_or(usize::MAX);
            if k < outcomes.len() && outcomes[k].status == "missing" {
                outcomes[k].status = it.next().unwrap_or("").to_string();
            }
        } else if let Some(rest) = line.strip_prefix("LTERM ") {
            let mut it = rest.splitn(2, ' ');
            let k: usize = it.next().and_then(|x| x.parse().ok()).unwrap_or(usize::MAX);
            if k < ltlines.len() {
                ltlines[k] = it.next().unwrap_or("").to_string();
            }
        }
    }
    if !run.status.success() {
        // the process died: the first case without an END line is the culprit
        if let Some(k) = outcomes.iter().position(|o| o.status == "missing") {
            outcomes[k].status = format!("process died ({})", run.status);
        }
    }
    Ok((outcomes, ltlines))
}

fn viol(merged: &mut Merged, case: &str, monitor: &str, sig: &str, msg: String, prog: String) {
    merged.violations.push((case.to_string(), Violation { monitor: monitor.into(), signature: sig.into(), message: msg, program: prog }));
}

/// Judge every case of a batch. `api_compare`: also run the API-built twin in-process.
pub fn judge(id: &str, cases: &[SurfCase], outcomes: &[SurfOutcome], merged: &mut Merged, api_compare: bool) {
    for (k, (c, o)) in cases.iter().zip(outcomes.iter()).enumerate() {
        merged.cases += 1;
        let case = format!("surface:{}", k);
        let ptxt = format!("{}", c.prog);
        bump_by(&mut merged.counters, &format!("tag_{}", c.tag), 1);
        if o.status.starts_with("panic") {
            let msg = o.status.split(" x").nth(1).map(|h| h.to_string()).unwrap_or_default();
            viol(merged, &case, "M-panic", "compiled surface program panics", format!("panic payload (hex) {}", msg), ptxt.clone());
            continue;
        }
        if o.status.starts_with("process died") || o.status == "missing" || o.status.starts_with("unparsable") {
            viol(merged, &case, "M-crash", "generated program run did not complete", o.status.clone(), ptxt.clone());
            continue;
        }
        if o.status == "budget" {
            bump_by(&mut merged.counters, "cases_inconclusive", 1);
            continue;
        }
        if o.status == "notfused" {
            viol(merged, &case, "M-ans", "iterator returned Some after None", String::new(), ptxt.clone());
        }
        bump_by(&mut merged.counters, "programs_compiled_and_run", 1);
        bump_by(&mut merged.counters, "answers_observed", o.answers.len() as u64);
        let real: Vec<Ans> = o.answers.iter().map(|a| a.ans.clone()).collect();
        // reified names, result order
        for a in o.answers.iter() {
            if a.var_names.iter().any(|n| n != "_") {
                viol(merged, &case, "M-c03", "answer of a compiled program contains a non-reified variable", format!("variable names {:?}", a.var_names), ptxt.clone());
                break;
            }
            if a.display_order != a.declared {
                viol(merged, &case, "M-order", "query results are not reported in declaration order", format!("Display order {:?}, declared {:?}", a.display_order, a.declared), ptxt.clone());
                break;
            }
        }
        // reference
        let mut r = Ref::new(&c.prog);
        r.set_reading = c.infinite;
        let uni = universe(&c.prog, &[]);
        match r.run() {
            Ok(ra) => {
                let rans: Vec<Ans> = ra.iter().map(Ans::from_ref).collect();
                bump_by(&mut merged.counters, "reference_compared", 1);
                let capped = o.status == "capped";
                if c.infinite || capped {
                    for a in real.iter() {
                        let ok = match instances(a, &uni) {
                            Some(s) => {
                                let mut all = std::collections::BTreeSet::new();
                                let mut wide = false;
                                for x in rans.iter() {
                                    match instances(x, &uni) {
                                        Some(i) => all.extend(i),
                                        None => wide = true,
                                    }
                                }
                                wide || s.is_subset(&all)
                            }
                            None => true,
                        };
                        if !ok {
                            viol(merged, &case, "M-ref", "compiled surface program yields an answer that is not an answer of its AST", format!("answer {} not covered by reference {}", a, show_answers(&rans)), ptxt.clone());
                            break;
                        }
                    }
                } else if let Cmp::Different(why) = compare_multisets(&real, &rans, &uni) {
                    viol(merged, &case, "M-ref", "compiled surface program's answers differ from the reference semantics of its AST", format!("{} | compiled {} | reference {}", why, show_answers(&real), show_answers(&rans)), ptxt.clone());
                } else if c.ordered {
                    bump_by(&mut merged.counters, "compiled_sequences_compared", 1);
                    if let Cmp::Different(why) = compare_sequences(&real, &rans, &uni) {
                        viol(merged, &case, "M-order", "compiled depth-first program: answers are not in Prolog order", format!("{} | compiled {} | reference {}", why, show_answers(&real), show_answers(&rans)), ptxt.clone());
                    }
                }
                if !rans.is_empty() {
                    merged.distinct.insert(fnv(&format!("{}/{:?}", ptxt, c.naming)));
                }
            }
            Err(_) => {
                bump_by(&mut merged.counters, "reference_gave_up", 1);
            }
        }
        // API-built twin (the builder mirrors the macro expansion): same answers, same order
        if api_compare && !c.infinite && o.status == "ended" {
            let cfg = RunCfg { max_answers: MAX_ANSWERS, step_budget: BUDGET, extra_next: 0, display: false };
            let api = run_query(&c.prog, &cfg);
            if api.panic.is_none() && !api.budget_exceeded && api.ended {
                bump_by(&mut merged.counters, "api_twin_compared", 1);
                if super::c09::l1_text(&api.answers) != super::c09::l1_text(&real) {
                    // order may legitimately differ only if the expansion differs; report multiset difference as violation
                    if let Cmp::Different(why) = compare_multisets(&real, &api.answers, &uni) {
                        viol(merged, &case, "M-meta", "macro-built program and API-built program disagree", format!("{} | compiled {} | api {}", why, show_answers(&real), show_answers(&api.answers)), ptxt.clone());
                    } else {
                        bump_by(&mut merged.counters, "api_twin_same_multiset_different_order", 1);
                    }
                }
            }
        }
        // alpha-renamed twin
        if let Some(t) = c.twin_of {
            let other: Vec<Ans> = outcomes[t].answers.iter().map(|a| a.ans.clone()).collect();
            if outcomes[t].status == o.status {
                bump_by(&mut merged.counters, "alpha_twins_compared", 1);
                if super::c09::l1_text(&other) != super::c09::l1_text(&real) {
                    viol(merged, &case, "M-meta", "a program and its alpha-renaming give different answers", format!("shadowing names: {} | distinct names: {}", show_answers(&real), show_answers(&other)), ptxt.clone());
                }
            }
        }
        if merged.samples.len() < 4 && k % 97 == 3 {
            let mut em = Emitter::new(c.naming, &format!("p{}", k), 1);
            let text = em.program(&c.prog, MAX_ANSWERS, BUDGET);
            merged.samples.push(Json::obj().with("ast", Json::s(ptxt.clone())).with("emitted_source", Json::s(text.chars().take(900).collect::<String>())).with("answers", Json::s(show_answers(&real))));
        }
    }
    let _ = id;
}

pub fn judge_lterms(lterms: &[LtermCase], lines: &[String], merged: &mut Merged) {
    for (k, (lc, line)) in lterms.iter().zip(lines.iter()).enumerate() {
        merged.cases += 1;
        let case = format!("lterm:{}", k);
        let payload = format!("T {} | C | D  | N ", line);
        match parse_answer(&payload) {
            Some(a) => {
                bump_by(&mut merged.counters, "lterm_terms_compared", 1);
                let (items, _) = a.ans.tuple.unroll();
                let got = items.first().map(|t| (*t).clone()).unwrap_or(T::Nil);
                // `_` becomes a fresh variable: compare up to renaming with Any replaced by fresh vars
                let mut n = 5000;
                let expect = replace_any(&lc.term, &mut n);
                if !crate::term::variants(&got, &expect) {
                    viol(merged, &case, "M-model", "lterm! does not denote the written term", format!("lterm!({}) = {}", lc.term, got), format!("{}", lc.term));
                }
                merged.distinct.insert(fnv(&format!("lterm {}", lc.term)));
            }
            None => viol(merged, &case, "M-crash", "lterm! case produced no parsable output", line.clone(), format!("{}", lc.term)),
        }
    }
}

fn replace_any(t: &T, n: &mut u32) -> T {
    match t {
        T::Any => {
            *n += 1;
            T::Var(*n)
        }
        T::Cons(h, tl) => {
            let a = replace_any(h, n);
            let b = replace_any(tl, n);
            T::cons(a, b)
        }
        T::Comp(name, fs) => T::Comp(name, fs.iter().map(|f| replace_any(f, n)).collect()),
        x => x.clone(),
    }
}

/// Common driver: build, run, judge; turns build failures into violations or inconclusives.
pub fn run_surface_batch(id: &str, cases: Vec<SurfCase>, lterms: Vec<LtermCase>, seed: u64, api_compare: bool) -> Merged {
    let mut merged = Merged::default();
    match build_and_run(id, &cases, &lterms, seed, &mut merged) {
        Ok((outcomes, ltlines)) => {
            judge(id, &cases, &outcomes, &mut merged, api_compare);
            judge_lterms(&lterms, &ltlines, &mut merged);
        }
        Err((kind, msg, prog)) => {
            if kind == "compile" {
                merged.cases = cases.len() as u64;
                viol(&mut merged, "surface:build", "M-compile", "a generated well-formed surface program does not compile", msg, prog);
            } else {
                merged.inconclusive.push(msg.clone());
                bump_by(&mut merged.counters, "cases_inconclusive", (cases.len() as u64).max(1));
                merged.cases = cases.len() as u64;
                println!("INCONCLUSIVE property={} reason={}", id, msg.lines().next().unwrap_or(""));
            }
        }
    }
    merged
}

/// Replay of one surface case (`surface:<k>`): rebuild only that program (and its alpha twin).
pub fn replay_case(id: &str, mut cases: Vec<SurfCase>, index: usize, seed: u64, api_compare: bool) -> CaseOut {
    let mut out = CaseOut::default();
    if index >= cases.len() {
        out.inconclusive.push(format!("no surface case {}", index));
        return out;
    }
    // keep the case and, if it has one, its twin (re-indexed)
    let twin = cases[index].twin_of;
    let mut subset: Vec<SurfCase> = vec![];
    if let Some(t) = twin {
        let tc = cases.swap_remove(t.max(index));
        let other = cases.swap_remove(t.min(index));
        let (first, mut second) = if t < index { (other, tc) } else { (tc, other) };
        second.twin_of = if second.twin_of.is_some() { Some(0) } else { None };
        let mut first = first;
        first.twin_of = if first.twin_of.is_some() { Some(1) } else { None };
        subset.push(first);
        subset.push(second);
    } else {
        subset.push(cases.swap_remove(index));
    }
    let merged = run_surface_batch(&format!("{}R", id), subset, vec![], seed, api_compare);
    for (_, v) in merged.violations {
        out.violations.push(v);
    }
    for (k, n) in merged.counters {
        out.count(&k, n);
    }
    out
}
