//! C08 — committed-choice operators keep exactly the committed answers.
use super::common::*;
use super::search::*;
use crate::ast::*;
use crate::canon::*;
use crate::framework::*;
use crate::run::*;
use crate::term::{T, V};
use crate::util::Rng;
use std::collections::BTreeSet;

pub struct C08;

const NQ: V = 4;

fn v(i: V) -> T {
    T::Var(i)
}

fn konst(rng: &mut Rng) -> T {
    [T::Int(1), T::Int(2), T::Int(3), T::s("a"), T::s("b")][rng.below(5)].clone()
}

fn qv(rng: &mut Rng) -> T {
    v(rng.below(NQ as usize) as V)
}

/// Head goals: every answer only binds query variables to ground terms (so a head's first answer
/// can be re-posted as equalities). `det` = at most one answer.
fn head(rng: &mut Rng, depth: usize, allow_infinite: bool) -> (G, bool) {
    match rng.below(if allow_infinite { 13 } else { 11 }) {
        0 | 1 => (G::Eq(qv(rng), konst(rng)), true),
        2 => (G::Eq(konst(rng), konst(rng)), true),
        3 => (G::Fail, true),
        4 => (G::Succeed, true),
        5 | 6 => {
            let n = 1 + rng.below(4);
            (G::Call(Rel::Member, vec![qv(rng), T::list((0..n).map(|_| konst(rng)).collect())]), false)
        }
        7 if depth > 0 => {
            let (a, _) = head(rng, depth - 1, false);
            let (b, _) = head(rng, depth - 1, false);
            (G::Conde(vec![vec![a], vec![b]]), false)
        }
        8 if depth > 0 => {
            // first answer only after several lazy steps: failing early clauses, deep member
            let deep = T::list((0..4 + rng.below(4)).map(|i| T::Int(100 + i as i64)).collect());
            let x = qv(rng);
            (G::Conde(vec![vec![G::Eq(T::Int(1), T::Int(2))], vec![G::Call(Rel::Member, vec![T::Int(999), deep.clone()])], vec![G::Call(Rel::Member, vec![x.clone(), deep]), G::Diseq(x.clone(), T::Int(100)), G::Diseq(x, T::Int(101))]]), false)
        }
        9 if depth > 0 => {
            let (a, da) = head(rng, depth - 1, false);
            let (b, db) = head(rng, depth - 1, false);
            (G::Conj(vec![a, b]), da && db)
        }
        11 => (G::Loop(vec![vec![G::Call(Rel::Member, vec![qv(rng), T::list(vec![konst(rng), konst(rng)])])]]), false),
        12 => (G::Conj(vec![G::Always, G::Eq(qv(rng), konst(rng))]), false),
        _ => (G::Eq(qv(rng), qv(rng)), true),
    }
}

fn rest_goal(rng: &mut Rng, depth: usize, det: &mut bool) -> G {
    match rng.below(10) {
        0 | 1 => G::Eq(qv(rng), konst(rng)),
        2 => {
            let n = 1 + rng.below(3);
            G::Call(Rel::Member, vec![qv(rng), T::list((0..n).map(|_| konst(rng)).collect())])
        }
        3 => G::Fail,
        4 => G::Diseq(qv(rng), konst(rng)),
        5 | 6 | 7 if depth > 0 => {
            let kind = rng.below(3);
            let (g, d) = commit_goal(rng, depth - 1, kind, false);
            *det &= d;
            g
        }
        _ => G::Eq(qv(rng), qv(rng)),
    }
}

/// kind: 0 conda, 1 condu, 2 onceo. Returns the goal and whether the reference semantics is
/// unambiguous for it (conda always; condu/onceo only when the committed heads are deterministic).
fn commit_goal(rng: &mut Rng, depth: usize, kind: usize, allow_infinite: bool) -> (G, bool) {
    let mut det = true;
    if kind == 2 {
        // onceo { c1, c2 }: first answer of the conjunction of all clauses
        let nc = 1 + rng.below(2);
        let mut cs = vec![];
        for _ in 0..nc {
            let (h, d) = head(rng, depth, allow_infinite && nc == 1);
            det &= d;
            cs.push(vec![h]);
        }
        return (G::Onceo(cs), det);
    }
    let nc = 1 + rng.below(4);
    let mut cs = vec![];
    for _ in 0..nc {
        let (h, d) = head(rng, depth, allow_infinite && kind == 1);
        if kind == 1 {
            det &= d;
        }
        let nr = rng.below(4);
        let mut c = vec![h];
        for _ in 0..nr {
            c.push(rest_goal(rng, depth, &mut det));
        }
        cs.push(c);
    }
    (if kind == 0 { G::Conda(cs) } else { G::Condu(cs) }, det)
}

fn prefix(rng: &mut Rng) -> Vec<G> {
    let n = rng.below(3);
    (0..n).map(|_| G::Eq(qv(rng), konst(rng))).collect()
}

fn prog(body: Vec<G>) -> Program {
    Program::new((0..NQ).collect(), body)
}

/// Re-post the bindings of an answer tuple as equalities on the query variables.
fn posts(a: &Ans) -> Vec<G> {
    let (items, _) = a.tuple.unroll();
    let mut out = vec![];
    for (i, it) in items.iter().enumerate() {
        if it.is_ground() {
            out.push(G::Eq(v(i as V), (*it).clone()));
        }
    }
    // aliasing between query variables left free by the answer
    for i in 0..items.len() {
        for j in (i + 1)..items.len() {
            if let (T::Var(x), T::Var(y)) = (items[i], items[j]) {
                if x == y {
                    out.push(G::Eq(v(i as V), v(j as V)));
                }
            }
        }
    }
    out
}

const FIXED: [&str; 6] = ["conda-rest-order", "condu-first-only", "conda-all-head-answers", "rest-fails-no-fallthrough", "onceo-empty", "matcha-rest-order"];

fn fixed_program(i: usize) -> Program {
    let s = |x: &str| T::s(x);
    match i {
        0 => prog(vec![G::Conda(vec![vec![G::Eq(v(0), T::Int(1)), G::Eq(v(1), T::Int(2)), G::Conda(vec![vec![G::Eq(v(1), T::Int(1)), G::Eq(v(2), s("a"))], vec![G::Eq(v(2), s("b"))]])], vec![G::Eq(v(2), s("c"))]])]),
        1 => prog(vec![G::Condu(vec![vec![G::Call(Rel::Member, vec![v(0), T::list(vec![T::Int(1), T::Int(2), T::Int(3)])]), G::Eq(v(1), v(0))], vec![G::Eq(v(0), T::Int(9))]])]),
        2 => prog(vec![G::Conda(vec![vec![G::Fail, G::Eq(v(1), T::Int(0))], vec![G::Call(Rel::Member, vec![v(0), T::list(vec![T::Int(1), T::Int(2), T::Int(3)])]), G::Call(Rel::Member, vec![v(1), T::list(vec![s("a"), s("b")])])], vec![G::Eq(v(0), T::Int(9))]])]),
        3 => prog(vec![G::Conda(vec![vec![G::Eq(v(0), T::Int(1)), G::Fail], vec![G::Eq(v(0), T::Int(2))]])]),
        4 => prog(vec![G::Onceo(vec![vec![G::Fail]]), G::Eq(v(0), T::Int(1))]),
        _ => prog(vec![G::Match(
            MatchKind::A,
            T::list(vec![T::Int(1), T::Int(2)]),
            vec![
                Arm { pats: vec![T::list(vec![v(10), v(11)])], body: vec![G::Eq(v(0), v(11)), G::Condu(vec![vec![G::Eq(v(0), T::Int(1)), G::Eq(v(1), s("a"))], vec![G::Eq(v(1), s("b"))]])] },
                Arm { pats: vec![T::Any], body: vec![G::Eq(v(1), s("c"))] },
            ],
        )]),
    }
}

impl Check for C08 {
    fn id(&self) -> &'static str {
        "C08"
    }
    fn gens(&self) -> Vec<GenSpec> {
        vec![
            GenSpec { name: "conda", quick: 5000, thorough: 200_000 },
            GenSpec { name: "condu", quick: 5000, thorough: 200_000 },
            GenSpec { name: "onceo", quick: 2000, thorough: 80_000 },
            GenSpec { name: "matchau", quick: 2000, thorough: 80_000 },
            GenSpec { name: "fixed", quick: FIXED.len() as u64, thorough: FIXED.len() as u64 },
        ]
    }
    fn rule(&self) -> &'static str {
        "Programs `prefix, OP { [head, rest...], ... }` over 4 query variables, prefix = 0-2 bindings (a single state). Heads: bindings, failing/succeeding goals, member with 1-4 answers, disjunctions, heads whose first answer appears only after several lazy steps (failing early clauses, deep member with disequalities), conjunctions, and for condu/onceo infinite heads (loop over member, [always, ==]); rest = 0-3 goals incl. member (multiplies answers), fail, !=, and NESTED conda/condu/onceo (order-sensitive). Oracles: (1) decomposition, real vs real: i = first clause whose head has an answer (decided by running `prefix, head_i` on the real engine under a step budget); conda must equal `prefix, head_i, rest_i` as a multiset; condu/onceo must equal `prefix, <bindings of the FIRST answer the engine gives for prefix, head_i>, rest_i`; (2) the reference soft-cut interpreter, wherever it is unambiguous (conda always, condu/onceo when the heads are deterministic); matcha/matchu through the macro's expansion (eq(term, pattern) as head). Distinct = distinct program text; non-trivial = some clause commits (the operator has at least one answer or a committed clause whose rest failed)."
    }
    fn assumptions(&self) -> Vec<String> {
        vec![
            "'first answer in engine order' is taken from the real engine (the property's own wording); everything else is decided by decomposition or by the reference".into(),
            "head goals bind query variables to ground terms only, so that a head answer can be re-posted as equalities".into(),
        ]
    }
    fn floor(&self, tier: Tier) -> u64 {
        match tier {
            Tier::Quick => 5000,
            Tier::Thorough => 150_000,
        }
    }
    fn required_counters(&self) -> Vec<&'static str> {
        vec!["decomposition_compared", "reference_compared", "drive_peek", "drive_trunc", "committed_clause_not_first", "committed_head_multi_answer", "committed_rest_failed", "no_clause_committed", "infinite_head_committed"]
    }
    fn run_case(&self, gen: &str, seed: u64, index: u64, _tier: Tier) -> CaseOut {
        let mut out = CaseOut::default();
        let mut rng = Rng::for_case(seed, gen, index);
        let cfg = RunCfg { max_answers: 3000, step_budget: 300_000, extra_next: 1, display: false };
        let first_cfg = RunCfg { max_answers: 1, step_budget: 100_000, extra_next: 0, display: false };
        let (pre, op, det) = match gen {
            "fixed" => {
                let p = fixed_program(index as usize);
                let mut body = p.body.clone();
                let op = body.remove(0);
                // fixed programs keep their suffix (if any) out of the decomposition: only reference
                let real = run_query(&p, &cfg);
                if usable(&real, &mut out, &p, "query") {
                    match ref_answers(&p, false) {
                        Ok(r) => {
                            out.count("reference_compared", 1);
                            let uni = universe(&p, &[]);
                            if cut_at_cap(real.ended, real.answers.len(), true, r.len()) {
                                out.count("comparisons_skipped_answer_cap", 1);
                            } else if let Cmp::Different(why) = compare_multisets(&real.answers, &r, &uni) {
                                out.violate("M-ref", "committed-choice answers differ from the soft-cut reference", format!("{} | real {} | reference {}", why, show_answers(&real.answers), show_answers(&r)), format!("{}", p));
                            }
                            out.distinct.push(program_key(&p));
                        }
                        Err(e) => out.inconclusive.push(format!("reference: {:?}", e)),
                    }
                    count_paths(&mut out, &real.paths);
                }
                let _ = op;
                return out;
            }
            "matchau" => {
                // match{a,u} over a scrutinee built from query variables and constants
                let kind = if rng.chance(1, 2) { MatchKind::A } else { MatchKind::U };
                let scrut = match rng.below(3) {
                    0 => T::list(vec![qv(&mut rng), konst(&mut rng)]),
                    1 => qv(&mut rng),
                    _ => T::list(vec![konst(&mut rng), konst(&mut rng)]),
                };
                let na = 2 + rng.below(3);
                let mut arms = vec![];
                for _ in 0..na {
                    let p1 = 20 + rng.below(2) as V;
                    let pat = match rng.below(6) {
                        0 => T::list(vec![T::Var(p1), T::Var(p1 + 2)]),
                        1 => T::list(vec![konst(&mut rng), T::Var(p1)]),
                        2 => T::improper(vec![T::Var(p1)], T::Any),
                        3 => konst(&mut rng),
                        4 => T::Nil,
                        _ => T::Any,
                    };
                    let mut det = true;
                    let nb = rng.below(4);
                    let mut body: Vec<G> = (0..nb).map(|_| rest_goal(&mut rng, 1, &mut det)).collect();
                    if pat.vars().contains(&p1) && rng.chance(1, 2) {
                        body.insert(0, G::Eq(qv(&mut rng), T::Var(p1)));
                    }
                    arms.push(Arm { pats: vec![pat], body });
                }
                (prefix(&mut rng), G::Match(kind, scrut, arms), true)
            }
            _ => {
                let kind = match gen {
                    "conda" => 0,
                    "condu" => 1,
                    _ => 2,
                };
                let (g, det) = commit_goal(&mut rng, 2, kind, true);
                (prefix(&mut rng), g, det)
            }
        };
        let mut body = pre.clone();
        body.push(op.clone());
        let whole = prog(body);
        let real = run_query(&whole, &cfg);
        out.count("programs", 1);
        if !usable(&real, &mut out, &whole, "query") {
            return out;
        }
        count_paths(&mut out, &real.paths);
        let uni = universe(&whole, &[]);
        let mut nontrivial = !real.answers.is_empty();
        // (2) reference, where unambiguous
        let infinite = op.has_infinite();
        if det && !infinite {
            match ref_answers(&whole, false) {
                Ok(r) => {
                    out.count("reference_compared", 1);
                    if cut_at_cap(real.ended, real.answers.len(), true, r.len()) {
                        out.count("comparisons_skipped_answer_cap", 1);
                    } else if let Cmp::Different(why) = compare_multisets(&real.answers, &r, &uni) {
                        out.violate("M-ref", "committed-choice answers differ from the soft-cut reference", format!("{} | real {} | reference {}", why, show_answers(&real.answers), show_answers(&r)), format!("{}", whole));
                    }
                }
                Err(e) => out.inconclusive.push(format!("reference: {:?}", e)),
            }
        }
        // (1) decomposition on the top-level operator
        let (clauses, once): (Vec<Vec<G>>, bool) = match &op {
            G::Conda(cs) => (cs.clone(), false),
            G::Condu(cs) => (cs.clone(), true),
            // onceo { g }: decomposable. For onceo { c1, c2 } the operator nests its conjunction
            // differently from any goal this harness can build separately, and the interleaving
            // order of a conjunction of multi-answer goals (hence WHICH answer is first) depends on
            // that nesting; those are left to the reference (when unambiguous).
            G::Onceo(cs) if cs.len() == 1 && cs[0].len() == 1 => (vec![vec![cs[0][0].clone()]], true),
            _ => (vec![], false),
        };
        if !clauses.is_empty() {
            let mut expected: Option<Vec<Ans>> = None;
            let mut committed: Option<usize> = None;
            for (i, c) in clauses.iter().enumerate() {
                let mut hb = pre.clone();
                hb.push(c[0].clone());
                let hp = prog(hb.clone());
                // The head's first answer "in engine order" is the first STATE of the head goal's
                // own stream (what Solver::trunc sees), so the solver is driven by hand here; going
                // through the query iterator would interleave reification into the order.
                let hr = run_states(&hp, &first_cfg, false);
                if hr.panic.is_some() || hr.budget_exceeded {
                    out.inconclusive.push("head run did not decide".into());
                    return out;
                }
                if hr.finals.is_empty() {
                    continue;
                }
                committed = Some(i);
                let mut eb = if once {
                    let mut b = pre.clone();
                    b.extend(posts(&hr.finals[0].answer));
                    b
                } else {
                    hb
                };
                eb.extend(c[1..].iter().cloned());
                let ep = prog(eb);
                let er = run_query(&ep, &cfg);
                if !usable(&er, &mut out, &ep, "decomposed query") {
                    return out;
                }
                if c[0].has_infinite() {
                    out.count("infinite_head_committed", 1);
                }
                if !once {
                    // how many answers did the committed head have?
                    let all = run_query(&hp, &cfg);
                    if all.answers.len() > 1 {
                        out.count("committed_head_multi_answer", 1);
                    }
                } else {
                    let two = run_query(&hp, &RunCfg { max_answers: 2, ..first_cfg.clone() });
                    if two.answers.len() > 1 {
                        out.count("committed_head_multi_answer", 1);
                    }
                }
                if er.answers.is_empty() {
                    out.count("committed_rest_failed", 1);
                }
                expected = Some(er.answers);
                break;
            }
            let expected = expected.unwrap_or_default();
            match committed {
                Some(i) if i > 0 => out.count("committed_clause_not_first", 1),
                None => out.count("no_clause_committed", 1),
                _ => {}
            }
            if committed.is_some() {
                nontrivial = true;
            }
            out.count("decomposition_compared", 1);
            if !real.ended && expected.len() >= real.answers.len() {
                out.count("comparisons_skipped_answer_cap", 1);
            } else if let Cmp::Different(why) = compare_multisets(&real.answers, &expected, &uni) {
                let what = if once { "condu/onceo keep exactly the first head answer of the first clause whose head succeeds" } else { "conda keeps all answers of (head and rest) of the first clause whose head succeeds" };
                out.violate(
                    "M-meta",
                    if once { "condu/onceo answers differ from the committed-clause decomposition" } else { "conda answers differ from the committed-clause decomposition" },
                    format!("{}: {} | operator {} | decomposition {} | committed clause {:?}", what, why, show_answers(&real.answers), show_answers(&expected), committed),
                    format!("{}", whole),
                );
            }
        }
        if nontrivial {
            out.distinct.push(program_key(&whole));
        }
        if index % 997 == 1 {
            out.sample = Some(sample_json(&whole, &real.answers, "compared with the committed-clause decomposition and (where unambiguous) the soft-cut reference"));
        }
        let mut seen = BTreeSet::new();
        out.violations.retain(|v| seen.insert(v.signature.clone()));
        out
    }
}
