//! C19 — CLP(Z) plusz/timesz constrain integers exactly.
use super::common::*;
use crate::ast::*;
use crate::canon::*;
use crate::framework::*;
use crate::run::*;
use crate::term::{T, V};
use crate::util::{permutations, Rng};
use std::collections::BTreeSet;

pub struct C19;

fn v(i: V) -> T {
    T::Var(i)
}

fn mk(op: usize, a: T, b: T, c: T) -> G {
    if op == 0 {
        G::Plusz(a, b, c)
    } else {
        G::Timesz(a, b, c)
    }
}

const VALS: [i64; 7] = [-3, -2, -1, 0, 1, 2, 3];

/// Enumerated lane: one constraint over operands u,v,w; `pattern` bit i = operand i is ground;
/// `lit` bit i = the ground operand is written as a literal (otherwise a variable bound by ==).
fn single_programs(op: usize, pattern: usize, lit: usize, uval: i64) -> Vec<Program> {
    let mut out = vec![];
    for vv in VALS.iter() {
        for wv in VALS.iter() {
            let vals = [uval, *vv, *wv];
            // skip value combinations that differ only in non-ground positions
            if (0..3).any(|i| pattern & (1 << i) == 0 && vals[i] != VALS[0]) {
                continue;
            }
            let mut ops = vec![];
            let mut binds = vec![];
            for i in 0..3 {
                if pattern & (1 << i) != 0 && lit & (1 << i) != 0 {
                    ops.push(T::Int(vals[i]));
                } else {
                    ops.push(v(i as V));
                    if pattern & (1 << i) != 0 {
                        binds.push(G::Eq(v(i as V), T::Int(vals[i])));
                    }
                }
            }
            let mut goals = vec![mk(op, ops[0].clone(), ops[1].clone(), ops[2].clone())];
            goals.extend(binds);
            for perm in permutations(goals.len()) {
                let body: Vec<G> = perm.iter().map(|i| goals[*i].clone()).collect();
                out.push(Program::new(vec![0, 1, 2], body));
            }
        }
    }
    out
}

fn small(rng: &mut Rng) -> i64 {
    rng.range(-4, 4)
}

fn chain_program(rng: &mut Rng, alias: bool) -> Program {
    let nv = if alias { 2 + rng.below(2) } else { 3 + rng.below(3) };
    let nc = if alias { 1 + rng.below(2) } else { 2 + rng.below(2) };
    let operand = |rng: &mut Rng| -> T {
        if rng.chance(1, 4) {
            T::Int(small(rng))
        } else {
            v(rng.below(nv) as V)
        }
    };
    let mut goals = vec![];
    for _ in 0..nc {
        goals.push(mk(rng.below(2), operand(rng), operand(rng), operand(rng)));
    }
    let nb = rng.below(nv + 1);
    let mut vars: Vec<V> = (0..nv as V).collect();
    rng.shuffle(&mut vars);
    for x in vars.iter().take(nb) {
        if rng.chance(1, 6) {
            let other = v(rng.below(nv) as V);
            goals.push(G::Eq(v(*x), other));
        } else {
            goals.push(G::Eq(v(*x), T::Int(small(rng))));
        }
    }
    if rng.chance(1, 5) {
        // bindings arriving through a disjunction: several states wake the same constraint object
        let x = v(rng.below(nv) as V);
        let cs: Vec<Vec<G>> = (0..2 + rng.below(2)).map(|_| vec![G::Eq(x.clone(), T::Int(small(rng)))]).collect();
        goals.push(G::Conde(cs));
    }
    if rng.chance(1, 3) {
        // tree disequalities in the same store as the suspended arithmetic constraints (posted
        // before or after them, on their operands or on an unrelated variable): pushing and
        // re-running a disequality rebuilds the store and must keep every other constraint
        for _ in 0..1 + rng.below(2) {
            let x = v(rng.below(nv) as V);
            goals.push(match rng.below(4) {
                0 => G::Diseq(x, T::Int(small(rng))),
                1 => G::Diseq(x, v(rng.below(nv) as V)),
                2 => G::Diseq(T::list(vec![x, v(rng.below(nv) as V)]), T::list(vec![T::Int(small(rng)), T::Int(small(rng))])),
                _ => G::Diseq(v(nv as V), T::Int(small(rng))),
            });
        }
    }
    rng.shuffle(&mut goals);
    Program::new((0..=nv as V).collect(), goals)
}

const FIXED: [&str; 8] = ["plus-ground-true", "plus-all-unbound-then-bound", "times-nondivisible", "times-zero-zero", "times-zero-nonzero", "times-zero-late", "plus-late-conflict", "times-all-unbound"];

fn fixed_program(i: usize) -> Program {
    match i {
        0 => Program::new(vec![0], vec![G::Plusz(T::Int(1), T::Int(2), T::Int(3)), G::Eq(v(0), T::Int(7))]),
        1 => Program::new(vec![0, 1, 2], vec![G::Plusz(v(0), v(1), v(2)), G::Eq(v(0), T::Int(1)), G::Eq(v(2), T::Int(4))]),
        2 => Program::new(vec![0], vec![G::Timesz(T::Int(2), v(0), T::Int(5))]),
        3 => Program::new(vec![0], vec![G::Timesz(T::Int(0), v(0), T::Int(0))]),
        4 => Program::new(vec![0], vec![G::Timesz(T::Int(0), v(0), T::Int(3))]),
        5 => Program::new(vec![0, 1], vec![G::Timesz(v(1), v(0), T::Int(0)), G::Eq(v(1), T::Int(0)), G::Eq(v(0), T::Int(5))]),
        6 => Program::new(vec![0, 1, 2], vec![G::Plusz(v(0), v(1), v(2)), G::Eq(v(0), T::Int(1)), G::Eq(v(1), T::Int(1)), G::Conde(vec![vec![G::Eq(v(2), T::Int(2))], vec![G::Eq(v(2), T::Int(3))]])]),
        _ => Program::new(vec![0, 1, 2], vec![G::Timesz(v(0), v(1), v(2)), G::Eq(v(2), T::Int(6)), G::Eq(v(1), T::Int(-2))]),
    }
}

impl Check for C19 {
    fn id(&self) -> &'static str {
        "C19"
    }
    fn gens(&self) -> Vec<GenSpec> {
        // single: op(2) x pattern(8) x literal mask(8) x u value(7)
        let n = 2 * 8 * 8 * 7;
        vec![
            GenSpec { name: "single", quick: n, thorough: n },
            GenSpec { name: "alias", quick: 6000, thorough: 300_000 },
            GenSpec { name: "chain", quick: 6000, thorough: 300_000 },
            GenSpec { name: "fixed", quick: FIXED.len() as u64, thorough: FIXED.len() as u64 },
        ]
    }
    fn rule(&self) -> &'static str {
        "'single' (enumerated, seed-independent): plusz and timesz over three operands, every groundness pattern (8), every way of writing a ground operand as a literal or as a variable bound by == (8), all values -3..=3 of the ground operands (incl. 0 and non-divisible products), and EVERY interleaving of the constraint with the bindings of its operands; 'alias': 1-2 constraints over 2-3 variables with arbitrary operand aliasing and constants, 0-3 bindings (to integers or to each other), optionally a conde of bindings, one program in three with 1-2 tree disequalities (on the operands, between them, multi-pair, or on an unrelated variable) in the same store, in random order; 'chain': 2-3 constraints sharing 3-5 variables; 'fixed': 8 hand-written programs. Real answers vs the reference integer model (functional propagation to a fixpoint: two ground operands determine the third, contradiction fails, 0*r=0 stays constrained) as multisets of answer tuples up to renaming; any panic is a violation. Distinct = distinct program text; non-trivial = every program (each has a constraint)."
    }
    fn assumptions(&self) -> Vec<String> {
        vec!["reference: integer arithmetic with wake-on-two-ground propagation (pvmon::refsem::settle)".into(), "operands are variables or integers and all intermediate integers are tiny, as C23's well-formedness demands".into()]
    }
    fn floor(&self, tier: Tier) -> u64 {
        match tier {
            Tier::Quick => 10_000,
            Tier::Thorough => 200_000,
        }
    }
    fn required_counters(&self) -> Vec<&'static str> {
        vec!["programs_with_answers", "programs_without_answers", "answers_with_unbound_operand", "programs_compared"]
    }
    fn run_case(&self, gen: &str, seed: u64, index: u64, _tier: Tier) -> CaseOut {
        let mut out = CaseOut::default();
        let progs: Vec<Program> = match gen {
            "single" => {
                let i = index as usize;
                let uval = VALS[i % 7];
                let lit = (i / 7) % 8;
                let pattern = (i / 56) % 8;
                let op = (i / 448) % 2;
                if lit & !pattern != 0 {
                    // literal mask must be a subset of the ground pattern
                    vec![]
                } else {
                    single_programs(op, pattern, lit, uval)
                }
            }
            "fixed" => vec![fixed_program(index as usize)],
            _ => {
                let mut rng = Rng::for_case(seed, gen, index);
                vec![chain_program(&mut rng, gen == "alias")]
            }
        };
        let cfg = RunCfg { max_answers: 200, step_budget: 500_000, extra_next: 2, display: true };
        for (k, prog) in progs.iter().enumerate() {
            let real = run_query(prog, &cfg);
            if !usable(&real, &mut out, prog, "query") {
                continue;
            }
            let rans = match ref_answers(prog, false) {
                Ok(a) => a,
                Err(e) => {
                    out.inconclusive.push(format!("reference: {:?}", e));
                    continue;
                }
            };
            out.count("programs_compared", 1);
            out.distinct.push(program_key(prog));
            if rans.is_empty() {
                out.count("programs_without_answers", 1);
            } else {
                out.count("programs_with_answers", 1);
            }
            out.count("answers_with_unbound_operand", real.answers.iter().filter(|a| !a.tuple.is_ground()).count() as u64);
            let a = tuple_multiset(&real.answers);
            let b = tuple_multiset(&rans);
            if a != b {
                let sig = if a.len() > b.len() {
                    "CLP(Z) goal succeeds where the integer model has no solution (or yields extra answers)"
                } else if a.len() < b.len() {
                    "CLP(Z) goal fails where the integer model has a solution"
                } else {
                    "CLP(Z) goal binds an operand differently from the integer model"
                };
                out.violate("M-ref", sig, format!("real {} vs integer model {}", show_terms(&a), show_terms(&b)), format!("{}", prog));
            }
            if out.sample.is_none() && (k == 3 && index % 97 == 0 || gen == "fixed" && index == 3) {
                out.sample = Some(sample_json(prog, &real.answers, &format!("integer model: {}", show_answers(&rans))));
            }
        }
        if out.sample.is_none() && gen != "single" && index % 1999 == 0 {
            if let Some(p) = progs.first() {
                out.sample = Some(sample_json(p, &[], "see observed counters"));
            }
        }
        let mut seen = BTreeSet::new();
        out.violations.retain(|v| seen.insert(v.signature.clone()));
        out
    }
}
