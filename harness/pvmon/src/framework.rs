//! Check framework: cases, worker processes, merging, known findings, evidence, exit codes.
use crate::util::{bump_by, Json};
use std::collections::{BTreeMap, BTreeSet};
use std::io::Write;
use std::path::{Path, PathBuf};
use std::process::{Command, Stdio};
use std::time::{Duration, Instant};

pub fn verif_root() -> String {
    std::env::var("VERIF_ROOT").unwrap_or_else(|_| "/verif".to_string())
}

#[derive(Clone, Copy, PartialEq, Eq, Debug)]
pub enum Tier {
    Quick,
    Thorough,
}

impl Tier {
    pub fn name(&self) -> &'static str {
        match self {
            Tier::Quick => "quick",
            Tier::Thorough => "thorough",
        }
    }
    pub fn parse(s: &str) -> Option<Tier> {
        match s {
            "quick" => Some(Tier::Quick),
            "thorough" => Some(Tier::Thorough),
            _ => None,
        }
    }
}

#[derive(Clone, Debug)]
pub struct Violation {
    /// which monitor fired
    pub monitor: String,
    /// stable signature used for known-finding matching
    pub signature: String,
    pub message: String,
    /// the program / input, rendered
    pub program: String,
}

/// Outcome of one case, accumulated per worker.
#[derive(Clone, Debug, Default)]
pub struct CaseOut {
    pub violations: Vec<Violation>,
    pub counters: BTreeMap<String, u64>,
    /// hash keys of distinct non-trivial cases (by the property's rule)
    pub distinct: Vec<u64>,
    pub sample: Option<Json>,
    /// reasons this case could not be decided
    pub inconclusive: Vec<String>,
}

impl CaseOut {
    pub fn count(&mut self, k: &str, n: u64) {
        bump_by(&mut self.counters, k, n);
    }
    pub fn violate(&mut self, monitor: &str, signature: &str, message: String, program: String) {
        self.violations.push(Violation { monitor: monitor.to_string(), signature: signature.to_string(), message, program });
    }
}

/// A named generator with the number of cases to run at each tier.
#[derive(Clone, Debug)]
pub struct GenSpec {
    pub name: &'static str,
    pub quick: u64,
    pub thorough: u64,
}

pub trait Check {
    fn id(&self) -> &'static str;
    fn gens(&self) -> Vec<GenSpec>;
    /// Run one case. Must be deterministic in (gen, seed, index) apart from hash-order effects.
    fn run_case(&self, gen: &str, seed: u64, index: u64, tier: Tier) -> CaseOut;
    /// Rule text for the evidence file.
    fn rule(&self) -> &'static str;
    fn assumptions(&self) -> Vec<String>;
    /// Minimum number of distinct non-trivial cases below which the run is inconclusive.
    fn floor(&self, tier: Tier) -> u64 {
        match tier {
            Tier::Quick => 20,
            Tier::Thorough => 100,
        }
    }
    /// Counters that must be non-zero for the run to count as having observed the property
    /// (hook reached, path driven); otherwise inconclusive.
    fn required_counters(&self) -> Vec<&'static str> {
        vec![]
    }
    fn exhaustive(&self) -> bool {
        false
    }
    /// Number of worker processes.
    fn shards(&self, tier: Tier) -> usize {
        match tier {
            Tier::Quick => 8,
            Tier::Thorough => 16,
        }
    }
    /// Batch checks (surface-syntax lane) do all their work in the parent process: generate,
    /// compile and run a crate of programs. Returns None for ordinary sharded checks.
    fn run_batch(&self, _tier: Tier, _seed: u64) -> Option<Merged> {
        None
    }
    /// Sanitizer lane: cases `(gen, first index, count)` to re-run under Miri (same run_case code,
    /// interpreted), plus the direct exercise of the unsafe `LTerm::project` write if `true`.
    fn miri_lane(&self, _tier: Tier) -> Option<(Vec<(&'static str, u64, u64)>, bool)> {
        None
    }
    /// Post-merge hook: may add run-level violations from the merged counters.
    fn finish(&self, _merged: &mut Merged, _tier: Tier) {}
}

#[derive(Clone, Debug, Default)]
pub struct Merged {
    pub counters: BTreeMap<String, u64>,
    pub distinct: BTreeSet<u64>,
    pub samples: Vec<Json>,
    pub violations: Vec<(String, Violation)>, // (case id, violation)
    pub inconclusive: Vec<String>,
    pub cases: u64,
}

fn violation_json(case: &str, v: &Violation) -> Json {
    Json::obj()
        .with("case", Json::s(case))
        .with("monitor", Json::s(v.monitor.clone()))
        .with("signature", Json::s(v.signature.clone()))
        .with("message", Json::s(v.message.clone()))
        .with("program", Json::s(v.program.clone()))
}

fn write_summary(path: &Path, merged: &Merged) {
    let j = Json::obj()
        .with("cases", Json::Int(merged.cases as i64))
        .with("counters", Json::from_map(&merged.counters))
        .with("distinct", Json::Arr(merged.distinct.iter().map(|d| Json::s(format!("{:x}", d))).collect()))
        .with("samples", Json::Arr(merged.samples.clone()))
        .with("inconclusive", Json::strs(merged.inconclusive.clone()));
    let tmp = path.with_extension("tmp");
    if std::fs::write(&tmp, j.to_string()).is_ok() {
        let _ = std::fs::rename(&tmp, path);
    }
}

/// Worker: run the cases of this shard. Violations are appended to `violations-<shard>.jsonl`
/// as soon as they are found; counters are flushed to `worker-<shard>-<part>.json` every few
/// hundred cases and at the end, so that an abort of the process loses at most the case in
/// progress. `skip_through` = case id after which to resume (restart after an abort).
pub fn worker_main(check: &dyn Check, tier: Tier, seed: u64, shard: usize, nshards: usize, outdir: &Path, part: usize, skip_through: Option<String>) {
    let progress = outdir.join(format!("progress-{}.txt", shard));
    let summary = outdir.join(format!("worker-{}-{}.json", shard, part));
    let vio_path = outdir.join(format!("violations-{}.jsonl", shard));
    let mut merged = Merged::default();
    let mut skipping = skip_through.is_some();
    let mut last_flush = Instant::now();
    let mut nviol = 0usize;
    // recorded known findings never count towards the early stop below
    let known_sigs: Vec<String> = load_known(check.id()).into_iter().map(|(sig, _)| sig).collect();
    for g in check.gens() {
        let n = match tier {
            Tier::Quick => g.quick,
            Tier::Thorough => g.thorough,
        };
        for index in 0..n {
            if (index as usize) % nshards != shard {
                continue;
            }
            let case_id = format!("{}:{}", g.name, index);
            if skipping {
                if Some(&case_id) == skip_through.as_ref() {
                    skipping = false;
                }
                continue;
            }
            let _ = std::fs::write(&progress, format!("CASE-BEGIN {}\n", case_id));
            let out = check.run_case(g.name, seed, index, tier);
            merged.cases += 1;
            for (k, v) in out.counters.iter() {
                bump_by(&mut merged.counters, k, *v);
            }
            for d in out.distinct {
                merged.distinct.insert(d);
            }
            if let Some(s) = out.sample {
                if merged.samples.len() < 3 {
                    merged.samples.push(s);
                }
            }
            nviol += out.violations.iter().filter(|v| !known_sigs.contains(&v.signature)).count();
            if !out.violations.is_empty() {
                if let Ok(mut f) = std::fs::OpenOptions::new().create(true).append(true).open(&vio_path) {
                    for v in out.violations.iter() {
                        let _ = writeln!(f, "{}", violation_json(&case_id, v).to_string());
                    }
                }
            }
            for r in out.inconclusive {
                if merged.inconclusive.len() < 50 {
                    merged.inconclusive.push(format!("{}: {}", case_id, r));
                }
                bump_by(&mut merged.counters, "cases_inconclusive", 1);
            }
            if last_flush.elapsed() > Duration::from_secs(4) {
                write_summary(&summary, &merged);
                last_flush = Instant::now();
            }
            if nviol >= 8 {
                // the verdict of the run is already VIOLATION; a broken engine can make every
                // further case burn its whole step budget, so this shard stops here
                bump_by(&mut merged.counters, "shards_stopped_early_after_8_violations", 1);
                write_summary(&summary, &merged);
                let _ = std::fs::write(&progress, "DONE\n");
                return;
            }
        }
    }
    write_summary(&summary, &merged);
    let _ = std::fs::write(&progress, "DONE\n");
}

fn load_known(property: &str) -> Vec<(String, String)> {
    // (signature, description) of entries with status "known" for this property
    let path = Path::new(&verif_root()).join("known_findings.json");
    let mut out = vec![];
    if let Ok(s) = std::fs::read_to_string(&path) {
        if let Ok(j) = Json::parse(&s) {
            if let Some(arr) = j.get("findings").and_then(|a| a.as_arr()) {
                for e in arr {
                    let p = e.get("property").and_then(|x| x.as_str()).unwrap_or("");
                    let st = e.get("status").and_then(|x| x.as_str()).unwrap_or("");
                    if p == property && st == "known" {
                        out.push((
                            e.get("signature").and_then(|x| x.as_str()).unwrap_or("").to_string(),
                            e.get("description").and_then(|x| x.as_str()).unwrap_or("").to_string(),
                        ));
                    }
                }
            }
        }
    }
    out
}

pub struct RunOpts {
    pub tier: Tier,
    pub seed: u64,
    pub exe: PathBuf,
}

/// Parent: fan out workers, merge, decide, write evidence. Returns the process exit code.
pub fn run_check(check: &dyn Check, opts: &RunOpts) -> i32 {
    let t0 = Instant::now();
    let id = check.id();
    let outdir = Path::new(&verif_root()).join("out").join(id);
    let _ = std::fs::remove_dir_all(&outdir);
    std::fs::create_dir_all(&outdir).expect("create out dir");
    let nshards = if check.gens().is_empty() { 0 } else { check.shards(opts.tier) };
    let spawn = |shard: usize, part: usize, skip: Option<&str>| {
        let log = std::fs::OpenOptions::new().create(true).append(true).open(outdir.join(format!("worker-{}.log", shard))).expect("log");
        let mut cmd = Command::new(&opts.exe);
        cmd.arg("worker").arg(id).arg(opts.tier.name()).arg(opts.seed.to_string()).arg(shard.to_string()).arg(nshards.to_string()).arg(&outdir).arg(part.to_string());
        if let Some(s) = skip {
            cmd.arg(s);
        }
        cmd.stdin(Stdio::null()).stdout(Stdio::from(log.try_clone().expect("clone"))).stderr(Stdio::from(log)).spawn().expect("spawn worker")
    };
    let mut children = vec![];
    for shard in 0..nshards {
        children.push((shard, spawn(shard, 0, None)));
    }
    let watchdog = match opts.tier {
        Tier::Quick => Duration::from_secs(1500),
        Tier::Thorough => Duration::from_secs(5 * 3600),
    };
    // the batch lane (generated crate: compile + run) works while the case workers are running
    let batch = check.run_batch(opts.tier, opts.seed);
    let mut merged = batch.unwrap_or_default();
    let mut harness_problems: Vec<String> = vec![];
    let mut crash_restarts = 0usize;
    for (shard, first_child) in children {
        let mut child = first_child;
        let mut part = 0usize;
        loop {
            let status = loop {
                match child.try_wait() {
                    Ok(Some(st)) => break Some(st),
                    Ok(None) => {
                        if t0.elapsed() > watchdog {
                            let _ = child.kill();
                            let _ = child.wait();
                            break None;
                        }
                        std::thread::sleep(Duration::from_millis(20));
                    }
                    Err(_) => break None,
                }
            };
            let progress = std::fs::read_to_string(outdir.join(format!("progress-{}.txt", shard))).unwrap_or_default();
            match status {
                Some(st) if st.success() => break,
                Some(st) => {
                    // abnormal death: attribute to the case in progress, re-run it alone, then
                    // resume the shard after that case
                    let case = progress.trim().strip_prefix("CASE-BEGIN ").unwrap_or("").to_string();
                    if case.is_empty() {
                        harness_problems.push(format!("worker {} died ({}) outside any case", shard, st));
                        break;
                    }
                    let parts: Vec<&str> = case.splitn(2, ':').collect();
                    let rerun = Command::new(&opts.exe)
                        .arg("case")
                        .arg(id)
                        .arg(opts.tier.name())
                        .arg(opts.seed.to_string())
                        .arg(parts[0])
                        .arg(parts.get(1).copied().unwrap_or("0"))
                        .stdin(Stdio::null())
                        .stdout(Stdio::null())
                        .stderr(Stdio::null())
                        .status();
                    match rerun {
                        Ok(st2) if !st2.success() && st2.code() != Some(1) => {
                            merged.violations.push((
                                case.clone(),
                                Violation {
                                    monitor: "M-crash".into(),
                                    signature: format!("process abort ({}) while solving", st2),
                                    message: format!("worker process died abnormally ({}) while running this case, reproducibly ({}); replay with: pvcheck case {} {} {} {} {}", st, st2, id, opts.tier.name(), opts.seed, parts[0], parts.get(1).copied().unwrap_or("0")),
                                    program: case.clone(),
                                },
                            ));
                        }
                        _ => harness_problems.push(format!("worker {} died ({}) in case {} but the case did not reproduce the abort", shard, st, case)),
                    }
                    crash_restarts += 1;
                    if crash_restarts > 6 {
                        harness_problems.push(format!("too many worker aborts; shard {} not resumed after {}", shard, case));
                        break;
                    }
                    part += 1;
                    child = spawn(shard, part, Some(&case));
                }
                None => {
                    harness_problems.push(format!("worker {} exceeded the wall-clock watchdog (case in progress: {})", shard, progress.trim()));
                    break;
                }
            }
        }
        for p in 0..=part {
            let summary = outdir.join(format!("worker-{}-{}.json", shard, p));
            if let Ok(s) = std::fs::read_to_string(&summary) {
                match Json::parse(&s) {
                    Ok(j) => {
                        merged.cases += j.get("cases").and_then(|x| x.as_i64()).unwrap_or(0) as u64;
                        if let Some(Json::Obj(items)) = j.get("counters") {
                            for (k, v) in items {
                                bump_by(&mut merged.counters, k, v.as_i64().unwrap_or(0) as u64);
                            }
                        }
                        if let Some(arr) = j.get("distinct").and_then(|x| x.as_arr()) {
                            for d in arr {
                                if let Some(s) = d.as_str() {
                                    if let Ok(h) = u64::from_str_radix(s, 16) {
                                        merged.distinct.insert(h);
                                    }
                                }
                            }
                        }
                        if let Some(arr) = j.get("samples").and_then(|x| x.as_arr()) {
                            for s in arr {
                                if merged.samples.len() < 5 {
                                    merged.samples.push(s.clone());
                                }
                            }
                        }
                        if let Some(arr) = j.get("inconclusive").and_then(|x| x.as_arr()) {
                            for r in arr {
                                if merged.inconclusive.len() < 50 {
                                    merged.inconclusive.push(r.as_str().unwrap_or("").to_string());
                                }
                            }
                        }
                    }
                    Err(e) => harness_problems.push(format!("worker {} summary unreadable: {}", shard, e)),
                }
            }
        }
        if let Ok(text) = std::fs::read_to_string(outdir.join(format!("violations-{}.jsonl", shard))) {
            for line in text.lines() {
                if let Ok(v) = Json::parse(line) {
                    let g = |k: &str| v.get(k).and_then(|x| x.as_str()).unwrap_or("").to_string();
                    merged.violations.push((g("case"), Violation { monitor: g("monitor"), signature: g("signature"), message: g("message"), program: g("program") }));
                }
            }
        }
    }
    if crash_restarts > 0 {
        bump_by(&mut merged.counters, "worker_aborts_resumed", crash_restarts as u64);
    }
    // sanitizer lane (Miri): the same monitors over a reduced workload, interpreted
    if let Some((lane, direct)) = check.miri_lane(opts.tier) {
        if std::env::var_os("PVMON_SKIP_MIRI").is_none() {
            run_miri_lane(id, opts, &lane, direct, &mut merged, &mut harness_problems);
        }
    }
    check.finish(&mut merged, opts.tier);

    // known findings
    let known = load_known(id);
    let mut reported: Vec<(String, Violation)> = vec![];
    let mut known_hit: BTreeMap<String, String> = BTreeMap::new();
    for (case, v) in merged.violations.iter() {
        if let Some((sig, desc)) = known.iter().find(|(sig, _)| *sig == v.signature) {
            known_hit.insert(sig.clone(), desc.clone());
        } else {
            reported.push((case.clone(), v.clone()));
        }
    }
    for (sig, desc) in known_hit.iter() {
        println!("KNOWN-FINDING: property={} {} [{}]", id, desc, sig);
    }
    // dedupe reported by signature; write replay files
    let mut seen_sig = BTreeSet::new();
    let mut n_written = 0;
    for (case, v) in reported.iter() {
        if !seen_sig.insert(v.signature.clone()) {
            continue;
        }
        if n_written >= 20 {
            break;
        }
        let parts: Vec<&str> = case.splitn(2, ':').collect();
        let path = outdir.join(format!("violation-{}.json", n_written));
        let j = Json::obj()
            .with("property", Json::s(id))
            .with("tier", Json::s(opts.tier.name()))
            .with("seed", Json::Int(opts.seed as i64))
            .with("gen", Json::s(parts[0]))
            .with("index", Json::Int(parts.get(1).and_then(|s| s.parse::<i64>().ok()).unwrap_or(0)))
            .with("monitor", Json::s(v.monitor.clone()))
            .with("signature", Json::s(v.signature.clone()))
            .with("message", Json::s(v.message.clone()))
            .with("program", Json::s(v.program.clone()));
        let _ = std::fs::write(&path, j.to_pretty());
        println!("VIOLATION property={} replay={}", id, path.display());
        println!("  monitor={} case={} :: {}", v.monitor, case, v.message.chars().take(400).collect::<String>());
        println!("  program: {}", v.program.chars().take(400).collect::<String>());
        n_written += 1;
    }

    // inconclusive?
    let mut inconclusive_reasons: Vec<String> = harness_problems.clone();
    let distinct_n = merged.distinct.len() as u64;
    if distinct_n < check.floor(opts.tier) {
        inconclusive_reasons.push(format!("only {} distinct non-trivial cases (floor {})", distinct_n, check.floor(opts.tier)));
    }
    for k in check.required_counters() {
        if merged.counters.get(k).copied().unwrap_or(0) == 0 {
            inconclusive_reasons.push(format!("required observation '{}' never made", k));
        }
    }
    let inc_cases = merged.counters.get("cases_inconclusive").copied().unwrap_or(0);
    if merged.cases > 0 && inc_cases * 4 > merged.cases {
        inconclusive_reasons.push(format!("{} of {} cases inconclusive", inc_cases, merged.cases));
    }

    // evidence
    let wall = t0.elapsed().as_secs_f64();
    let mut cov = Json::obj()
        .with("evaluations", Json::Int(merged.cases.max(1) as i64))
        .with("distinct_nontrivial", Json::Int(distinct_n as i64))
        .with("rule", Json::s(check.rule()))
        .with("samples", Json::Arr(if merged.samples.is_empty() { vec![Json::s("(no sample recorded)")] } else { merged.samples.clone() }))
        .with("exhaustive", Json::Bool(check.exhaustive()))
        .with("worker_processes", Json::Int(nshards as i64))
        .with("observed", Json::from_map(&merged.counters));
    if !merged.inconclusive.is_empty() {
        cov.set("inconclusive_cases", Json::strs(merged.inconclusive.iter().take(10).cloned()));
    }
    if !inconclusive_reasons.is_empty() {
        cov.set("inconclusive_reasons", Json::strs(inconclusive_reasons.clone()));
    }
    if !known_hit.is_empty() {
        cov.set("known_findings_seen", Json::strs(known_hit.keys().cloned()));
    }
    let verdict = if n_written > 0 {
        "violated"
    } else if !inconclusive_reasons.is_empty() {
        "inconclusive"
    } else {
        "held-on-observed"
    };
    cov.set("verdict", Json::s(verdict));
    let ev = Json::obj()
        .with("property_id", Json::s(id))
        .with("tier", Json::s(opts.tier.name()))
        .with("seed", Json::Int(opts.seed as i64))
        .with("level", Json::s("exploration"))
        .with("coverage", cov)
        .with("assumptions", Json::strs(check.assumptions()))
        .with("wall_s", Json::Num(wall))
        .with("violations", Json::Int(seen_sig.len() as i64));
    let evdir = Path::new(&verif_root()).join("evidence");
    let _ = std::fs::create_dir_all(&evdir);
    let evpath = evdir.join(format!("{}.json", id));
    std::fs::write(&evpath, ev.to_pretty()).expect("write evidence");

    println!(
        "{} {} seed={} cases={} distinct_nontrivial={} violations={} known={} wall={:.1}s verdict={}",
        id,
        opts.tier.name(),
        opts.seed,
        merged.cases,
        distinct_n,
        seen_sig.len(),
        known_hit.len(),
        wall,
        verdict
    );
    let _ = std::io::stdout().flush();
    if n_written > 0 {
        1
    } else if !inconclusive_reasons.is_empty() {
        for r in inconclusive_reasons.iter() {
            println!("INCONCLUSIVE property={} reason={}", id, r);
        }
        2
    } else {
        0
    }
}

fn run_miri_lane(id: &str, opts: &RunOpts, lane: &[(&'static str, u64, u64)], direct: bool, merged: &mut Merged, problems: &mut Vec<String>) {
    let harness = Path::new(&verif_root()).join("harness");
    // one Miri process per chunk of cases (Miri is single-threaded and ~10 s per case)
    let mut units: Vec<(&'static str, u64)> = vec![];
    for (g, a, n) in lane.iter() {
        for i in *a..(*a + *n) {
            units.push((g, i));
        }
    }
    let nproc = match opts.tier {
        Tier::Quick => 6,
        Tier::Thorough => 16,
    }
    .min(units.len().max(1));
    let mut chunks: Vec<Vec<String>> = vec![vec![]; nproc];
    for (k, (g, i)) in units.iter().enumerate() {
        chunks[k % nproc].push(format!("{}:{}:1", g, i));
    }
    let t0 = Instant::now();
    let miri = |spec: String, direct: bool| {
        Command::new("cargo")
            .arg("+nightly")
            .arg("miri")
            .arg("run")
            .arg("--offline")
            .arg("-q")
            .arg("-p")
            .arg("pvmon")
            .arg("--bin")
            .arg("pvcheck")
            .arg("--")
            .arg("mirilane")
            .arg(id)
            .arg(opts.tier.name())
            .arg(opts.seed.to_string())
            .arg(if direct { "direct" } else { "nodirect" })
            .arg(spec)
            .current_dir(&harness)
            .env("CARGO_NET_OFFLINE", "true")
            .env("MIRIFLAGS", "-Zmiri-disable-isolation -Zmiri-ignore-leaks")
            .env("CARGO_TARGET_DIR", harness.join("target").join("miri-lane"))
            .stdin(Stdio::null())
            .stdout(Stdio::piped())
            .stderr(Stdio::piped())
            .spawn()
    };
    // build once (first process alone), then fan out
    let mut outputs = vec![];
    match miri(String::new(), direct).and_then(|c| c.wait_with_output()) {
        Ok(o) => outputs.push(o),
        Err(e) => {
            problems.push(format!("Miri lane could not be started: {}", e));
            return;
        }
    }
    let mut children = vec![];
    for c in chunks.iter().filter(|c| !c.is_empty()) {
        match miri(c.join(","), false) {
            Ok(ch) => children.push(ch),
            Err(e) => problems.push(format!("Miri lane process could not be started: {}", e)),
        }
    }
    for ch in children {
        match ch.wait_with_output() {
            Ok(o) => outputs.push(o),
            Err(e) => problems.push(format!("Miri lane process failed: {}", e)),
        }
    }
    bump_by(&mut merged.counters, "miri_lane_wall_seconds", t0.elapsed().as_secs());
    bump_by(&mut merged.counters, "miri_processes", outputs.len() as u64);
    for out in outputs.iter() {
        let stdout = String::from_utf8_lossy(&out.stdout).to_string();
        let stderr = String::from_utf8_lossy(&out.stderr).to_string();
        let mut done = false;
        for line in stdout.lines() {
            if let Some(rest) = line.strip_prefix("MIRI-CASE ") {
                bump_by(&mut merged.counters, "miri_cases_run", 1);
                if let Some(p) = rest.find("violations=") {
                    let n: u64 = rest[p + 11..].split_whitespace().next().and_then(|x| x.parse().ok()).unwrap_or(0);
                    if n > 0 {
                        merged.violations.push((format!("miri:{}", rest), Violation { monitor: "M-miri".into(), signature: "a monitor fired in the Miri lane".into(), message: rest.to_string(), program: rest.to_string() }));
                    }
                }
            } else if let Some(rest) = line.strip_prefix("MIRI-DIRECT ") {
                bump_by(&mut merged.counters, "miri_direct_projection_checks", rest.split_whitespace().next().and_then(|x| x.parse().ok()).unwrap_or(0));
            } else if line.starts_with("MIRI-DONE") {
                done = true;
            }
        }
        let last_case = stdout.lines().filter(|l| l.starts_with("MIRI-BEGIN")).last().unwrap_or("").to_string();
        if stderr.contains("Undefined Behavior") {
            let first: String = stderr.lines().skip_while(|l| !l.contains("Undefined Behavior")).take(14).collect::<Vec<_>>().join("\n");
            merged.violations.push((format!("miri:{}", last_case), Violation { monitor: "M-miri".into(), signature: "Miri reports undefined behaviour".into(), message: format!("while running {}:\n{}", last_case, first), program: last_case }));
        } else if !done {
            problems.push(format!("a Miri lane process did not finish (exit {:?}, last case '{}'): {}", out.status.code(), last_case, stderr.lines().rev().take(5).collect::<Vec<_>>().join(" / ")));
        } else {
            bump_by(&mut merged.counters, "miri_lane_clean_processes", 1);
        }
    }
}

/// Replay / single-case entry: run one case in this process and print what it found.
pub fn run_single(check: &dyn Check, tier: Tier, seed: u64, gen: &str, index: u64) -> i32 {
    let out = check.run_case(gen, seed, index, tier);
    for v in out.violations.iter() {
        println!("VIOLATION-DETAIL property={} monitor={} signature={}\n  {}\n  program: {}", check.id(), v.monitor, v.signature, v.message, v.program);
    }
    for r in out.inconclusive.iter() {
        println!("INCONCLUSIVE-CASE {}", r);
    }
    if let Some(s) = out.sample {
        println!("sample: {}", s.to_string());
    }
    println!("counters: {:?}", out.counters);
    if out.violations.is_empty() {
        0
    } else {
        1
    }
}
