//! Reference semantics: a textbook depth-first, left-to-right interpreter over the harness's own
//! term type. No normalisation, no propagation: disequalities are re-checked by unification,
//! finite domains are enumerated by brute force at the leaves, CLP(Z) is integer arithmetic
//! with the obvious functional propagation.
use crate::ast::*;
use crate::term::{Subst, T, V};
use std::collections::{BTreeMap, BTreeSet};

#[derive(Clone, Copy, PartialEq, Eq, Debug)]
pub enum FdOp {
    Lte,
    Lt,
    Plus,
    Minus,
    Times,
    Ne,
    Distinct,
}

#[derive(Clone, Copy, PartialEq, Eq, Debug)]
pub enum ZOp {
    Plus,
    Times,
}

#[derive(Clone, Debug, Default)]
pub struct RState {
    pub s: Subst,
    pub diseqs: Vec<(T, T)>,
    pub doms: Vec<(T, BTreeSet<i64>)>,
    pub fdc: Vec<(FdOp, Vec<T>)>,
    pub zc: Vec<(ZOp, T, T, T)>,
    pub tags: Vec<u32>,
    /// number of successful `==` goals on this branch (for the C22 process_extension count)
    pub unifs: u32,
}

/// One reference answer.
#[derive(Clone, Debug, PartialEq, Eq, PartialOrd, Ord)]
pub struct RAnswer {
    /// walk* of the query tuple
    pub tuple: T,
    /// residual disequalities: each is a list of (var, term) bindings that must not all hold
    pub cons: Vec<Vec<(V, T)>>,
    pub tags: Vec<u32>,
    pub unifs: u32,
}

#[derive(Debug, Clone, PartialEq, Eq)]
pub enum RefErr {
    Fuel,
    TooManyStates,
    Unsupported(&'static str),
}

pub type Env = BTreeMap<V, T>;

pub struct Ref<'a> {
    pub prog: &'a Program,
    pub next_var: V,
    pub fuel: u64,
    pub max_states: usize,
    /// set reading of infinite constructs (Loop g = g, Always = succeed, Never = fail)
    pub set_reading: bool,
}

impl<'a> Ref<'a> {
    pub fn new(prog: &'a Program) -> Ref<'a> {
        Ref { prog, next_var: 100_000, fuel: 200_000, max_states: 20_000, set_reading: false }
    }

    fn fresh(&mut self) -> T {
        let v = self.next_var;
        self.next_var += 1;
        T::Var(v)
    }

    fn tick(&mut self) -> Result<(), RefErr> {
        if self.fuel == 0 {
            return Err(RefErr::Fuel);
        }
        self.fuel -= 1;
        Ok(())
    }

    /// Instantiate a program term under the environment (names -> terms, `_` -> fresh).
    pub fn inst(&mut self, env: &Env, t: &T) -> T {
        match t {
            T::Var(v) => match env.get(v) {
                Some(x) => x.clone(),
                None => panic!("refsem: unbound name v{}", v),
            },
            T::Any => self.fresh(),
            T::Cons(h, tl) => {
                let h2 = self.inst(env, h);
                let t2 = self.inst(env, tl);
                T::cons(h2, t2)
            }
            T::Comp(n, fs) => T::Comp(n, fs.iter().map(|f| self.inst(env, f)).collect()),
            x => x.clone(),
        }
    }

    /// Check all delayed tree constraints and run CLP(Z) propagation. None = state is dead.
    fn settle(&mut self, mut st: RState) -> Option<RState> {
        loop {
            // disequalities
            let mut keep = vec![];
            for (a, b) in st.diseqs.iter() {
                let mut s2 = st.s.clone();
                let mut ext = vec![];
                if !s2.unify(a, b, &mut ext) {
                    continue; // can never become equal: satisfied for good
                }
                if ext.is_empty() {
                    return None; // already equal: violated
                }
                keep.push((a.clone(), b.clone()));
            }
            st.diseqs = keep;
            // CLP(Z): functional propagation to a fixpoint
            let mut changed = false;
            let mut keepz = vec![];
            let zc = std::mem::take(&mut st.zc);
            for (op, u, v, w) in zc.into_iter() {
                let uw = st.s.walk(&u).clone();
                let vw = st.s.walk(&v).clone();
                let ww = st.s.walk(&w).clone();
                for x in [&uw, &vw, &ww].iter() {
                    if !x.is_var() && x.as_int().is_none() {
                        return None; // operand bound to a non-integer
                    }
                }
                let bind = |st: &mut RState, var: &T, val: i64| -> bool {
                    let mut ext = vec![];
                    st.s.unify(var, &T::Int(val), &mut ext)
                };
                match (uw.as_int(), vw.as_int(), ww.as_int()) {
                    (Some(a), Some(b), Some(c)) => {
                        let ok = match op {
                            ZOp::Plus => a.checked_add(b) == Some(c),
                            ZOp::Times => a.checked_mul(b) == Some(c),
                        };
                        if !ok {
                            return None;
                        }
                    }
                    (Some(a), Some(b), None) => {
                        let c = match op {
                            ZOp::Plus => a.checked_add(b),
                            ZOp::Times => a.checked_mul(b),
                        };
                        match c {
                            Some(c) => {
                                if !bind(&mut st, &ww, c) {
                                    return None;
                                }
                                changed = true;
                            }
                            None => return None,
                        }
                    }
                    (Some(known), None, Some(c)) | (None, Some(known), Some(c)) => {
                        let target = if uw.as_int().is_some() { vw.clone() } else { uw.clone() };
                        match op {
                            ZOp::Plus => {
                                if !bind(&mut st, &target, c - known) {
                                    return None;
                                }
                                changed = true;
                            }
                            ZOp::Times => {
                                if known == 0 {
                                    if c != 0 {
                                        return None;
                                    }
                                    // 0 * r = 0: every integer works; stays constrained
                                    keepz.push((op, u, v, w));
                                } else if c % known != 0 {
                                    return None;
                                } else {
                                    if !bind(&mut st, &target, c / known) {
                                        return None;
                                    }
                                    changed = true;
                                }
                            }
                        }
                    }
                    _ => keepz.push((op, u, v, w)),
                }
            }
            st.zc = keepz;
            if !changed {
                return Some(st);
            }
        }
    }

    fn unify(&mut self, st: RState, a: &T, b: &T) -> Option<RState> {
        let mut st = st;
        let mut ext = vec![];
        if !st.s.unify(a, b, &mut ext) {
            return None;
        }
        self.settle(st)
    }

    fn conj(&mut self, env: &Env, gs: &[G], st: RState) -> Result<Vec<RState>, RefErr> {
        let mut states = vec![st];
        for g in gs {
            let mut next = vec![];
            for s in states {
                next.extend(self.eval(env, g, s)?);
                if next.len() > self.max_states {
                    return Err(RefErr::TooManyStates);
                }
            }
            states = next;
            if states.is_empty() {
                break;
            }
        }
        Ok(states)
    }

    fn conj_clauses(&mut self, env: &Env, cs: &[Vec<G>], st: RState) -> Result<Vec<RState>, RefErr> {
        let mut states = vec![st];
        for c in cs {
            let mut next = vec![];
            for s in states {
                next.extend(self.conj(env, c, s)?);
            }
            states = next;
        }
        Ok(states)
    }

    fn disj(&mut self, env: &Env, cs: &[Vec<G>], st: RState) -> Result<Vec<RState>, RefErr> {
        let mut out = vec![];
        for c in cs {
            out.extend(self.conj(env, c, st.clone())?);
            if out.len() > self.max_states {
                return Err(RefErr::TooManyStates);
            }
        }
        Ok(out)
    }

    /// Soft cut / committed choice over clauses `[head, rest...]`.
    fn commit(&mut self, env: &Env, cs: &[Vec<G>], st: RState, once: bool) -> Result<Vec<RState>, RefErr> {
        for c in cs {
            if c.is_empty() {
                continue;
            }
            let mut heads = self.eval(env, &c[0], st.clone())?;
            if heads.is_empty() {
                continue;
            }
            if once {
                heads.truncate(1);
            }
            let mut out = vec![];
            for h in heads {
                out.extend(self.conj(env, &c[1..], h)?);
            }
            return Ok(out);
        }
        Ok(vec![])
    }

    fn with_names(&mut self, env: &Env, names: &[V]) -> Env {
        let mut e = env.clone();
        for v in names {
            let f = self.fresh();
            e.insert(*v, f);
        }
        e
    }

    pub fn eval(&mut self, env: &Env, g: &G, st: RState) -> Result<Vec<RState>, RefErr> {
        self.tick()?;
        let one = |o: Option<RState>| -> Result<Vec<RState>, RefErr> { Ok(o.into_iter().collect()) };
        match g {
            G::Eq(a, b) => {
                let a = self.inst(env, a);
                let b = self.inst(env, b);
                let mut st = st;
                st.unifs += 1;
                one(self.unify(st, &a, &b))
            }
            G::Diseq(a, b) => {
                let a = self.inst(env, a);
                let b = self.inst(env, b);
                let mut st = st;
                st.diseqs.push((a, b));
                one(self.settle(st))
            }
            G::Succeed => Ok(vec![st]),
            G::Fail => Ok(vec![]),
            G::Conj(gs) => self.conj(env, gs, st),
            G::Conde(cs) | G::Cond(cs) => self.disj(env, cs, st),
            G::Fresh(vs, gs) => {
                let e = self.with_names(env, vs);
                self.conj(&e, gs, st)
            }
            G::Dfs(cs) => self.conj_clauses(env, cs, st),
            G::Loop(cs) => {
                if self.set_reading {
                    self.conj_clauses(env, cs, st)
                } else {
                    Err(RefErr::Unsupported("loop"))
                }
            }
            G::Always => {
                if self.set_reading {
                    Ok(vec![st])
                } else {
                    Err(RefErr::Unsupported("always"))
                }
            }
            G::Never => {
                if self.set_reading {
                    Ok(vec![])
                } else {
                    Err(RefErr::Unsupported("never"))
                }
            }
            G::Conda(cs) => self.commit(env, cs, st, false),
            G::Condu(cs) => self.commit(env, cs, st, true),
            G::Onceo(cs) => {
                let mut r = self.conj_clauses(env, cs, st)?;
                r.truncate(1);
                Ok(r)
            }
            G::Project(vs, gs) => {
                let mut e = env.clone();
                for v in vs {
                    let cur = env.get(v).cloned().unwrap_or_else(|| panic!("refsem: unbound name v{}", v));
                    e.insert(*v, st.s.walk_star(&cur));
                }
                self.conj(&e, gs, st)
            }
            G::For(v, _kind, coll, cs) => {
                let mut states = vec![st];
                for item in coll {
                    let it = self.inst(env, item);
                    let mut e = env.clone();
                    e.insert(*v, it);
                    let mut next = vec![];
                    for s in states {
                        next.extend(self.conj_clauses(&e, cs, s)?);
                    }
                    states = next;
                }
                Ok(states)
            }
            G::Match(kind, scrut, arms) => {
                // rows: (scrutinee, pattern, env, body)
                let mut rows: Vec<(T, T, Env, &Vec<G>)> = vec![];
                for arm in arms {
                    for pat in &arm.pats {
                        let s = self.inst(env, scrut);
                        let e = self.with_names(env, &pat.vars());
                        let p = self.inst(&e, pat);
                        rows.push((s, p, e, &arm.body));
                    }
                }
                match kind {
                    MatchKind::Match | MatchKind::E => {
                        let mut out = vec![];
                        for (s, p, e, body) in rows {
                            if let Some(st2) = self.unify(st.clone(), &s, &p) {
                                out.extend(self.conj(&e, body, st2)?);
                            }
                        }
                        Ok(out)
                    }
                    MatchKind::A | MatchKind::U => {
                        for (s, p, e, body) in rows {
                            if let Some(st2) = self.unify(st.clone(), &s, &p) {
                                return self.conj(&e, body, st2);
                            }
                        }
                        Ok(vec![])
                    }
                }
            }
            G::Closure(gs) => self.conj(env, gs, st),
            G::Call(rel, args) => {
                let a: Vec<T> = args.iter().map(|x| self.inst(env, x)).collect();
                self.call_rel(*rel, &a, st)
            }
            G::RecCall(k, args) => {
                let a: Vec<T> = args.iter().map(|x| self.inst(env, x)).collect();
                let def = &self.prog.rels[*k];
                let mut e = Env::new();
                for (p, x) in def.params.iter().zip(a.into_iter()) {
                    e.insert(*p, x);
                }
                self.conj(&e, &def.body, st)
            }
            G::InFd(x, dom) => {
                let x = self.inst(env, x);
                let set: BTreeSet<i64> = dom.iter().copied().collect();
                let mut st = st;
                let (items, tail) = x.unroll();
                if matches!(x, T::Cons(..) | T::Nil) && *tail == T::Nil {
                    for it in items {
                        st.doms.push((it.clone(), set.clone()));
                    }
                } else {
                    st.doms.push((x.clone(), set));
                }
                Ok(vec![st])
            }
            G::InFdRange(x, lo, hi) => {
                let dom: Vec<i64> = (*lo..=*hi).collect();
                self.eval(env, &G::InFd(x.clone(), dom), st)
            }
            G::Ltefd(a, b) => self.post_fd(env, FdOp::Lte, &[a, b], st),
            G::Ltfd(a, b) => self.post_fd(env, FdOp::Lt, &[a, b], st),
            G::Plusfd(a, b, c) => self.post_fd(env, FdOp::Plus, &[a, b, c], st),
            G::Minusfd(a, b, c) => self.post_fd(env, FdOp::Minus, &[a, b, c], st),
            G::Timesfd(a, b, c) => self.post_fd(env, FdOp::Times, &[a, b, c], st),
            G::Diseqfd(a, b) => self.post_fd(env, FdOp::Ne, &[a, b], st),
            G::Distinctfd(a) => self.post_fd(env, FdOp::Distinct, &[a], st),
            G::Plusz(a, b, c) => {
                let (a, b, c) = (self.inst(env, a), self.inst(env, b), self.inst(env, c));
                let mut st = st;
                st.zc.push((ZOp::Plus, a, b, c));
                one(self.settle(st))
            }
            G::Timesz(a, b, c) => {
                let (a, b, c) = (self.inst(env, a), self.inst(env, b), self.inst(env, c));
                let mut st = st;
                st.zc.push((ZOp::Times, a, b, c));
                one(self.settle(st))
            }
            G::Probe(id) => {
                let mut st = st;
                st.tags.push(*id);
                Ok(vec![st])
            }
        }
    }

    fn post_fd(&mut self, env: &Env, op: FdOp, args: &[&T], st: RState) -> Result<Vec<RState>, RefErr> {
        let a: Vec<T> = args.iter().map(|x| self.inst(env, x)).collect();
        let mut st = st;
        st.fdc.push((op, a));
        Ok(vec![st])
    }

    /// Library relations by their documented (declarative) definitions, as recursive clause
    /// definitions over the reference's own unification.
    fn call_rel(&mut self, rel: Rel, a: &[T], st: RState) -> Result<Vec<RState>, RefErr> {
        self.tick()?;
        match rel {
            Rel::Cons => Ok(self.unify(st, &T::cons(a[0].clone(), a[1].clone()), &a[2]).into_iter().collect()),
            Rel::First => {
                let r = self.fresh();
                Ok(self.unify(st, &T::cons(a[1].clone(), r), &a[0]).into_iter().collect())
            }
            Rel::Rest => {
                let f = self.fresh();
                Ok(self.unify(st, &T::cons(f, a[1].clone()), &a[0]).into_iter().collect())
            }
            Rel::Empty => Ok(self.unify(st, &T::Nil, &a[0]).into_iter().collect()),
            Rel::Member => {
                // member(x, l): l = [h | t], (h == x ; member(x, t))
                let h = self.fresh();
                let t = self.fresh();
                let mut out = vec![];
                if let Some(st2) = self.unify(st.clone(), &a[1], &T::cons(h.clone(), t.clone())) {
                    if let Some(st3) = self.unify(st2.clone(), &h, &a[0]) {
                        out.push(st3);
                    }
                    out.extend(self.call_rel(Rel::Member, &[a[0].clone(), t], st2)?);
                }
                Ok(out)
            }
            Rel::Member1 => {
                let h = self.fresh();
                let t = self.fresh();
                let mut out = vec![];
                if let Some(st2) = self.unify(st.clone(), &a[1], &T::cons(h.clone(), t.clone())) {
                    if let Some(st3) = self.unify(st2.clone(), &h, &a[0]) {
                        out.push(st3);
                    }
                    let mut st4 = st2;
                    st4.diseqs.push((h, a[0].clone()));
                    if let Some(st5) = self.settle(st4) {
                        out.extend(self.call_rel(Rel::Member1, &[a[0].clone(), t], st5)?);
                    }
                }
                Ok(out)
            }
            Rel::Append => {
                // append([], s, s). append([x|l1], l2, [x|l3]) :- append(l1, l2, l3).
                let mut out = vec![];
                if let Some(st2) = self.unify(st.clone(), &a[0], &T::Nil) {
                    if let Some(st3) = self.unify(st2, &a[1], &a[2]) {
                        out.push(st3);
                    }
                }
                let x = self.fresh();
                let l1 = self.fresh();
                let l3 = self.fresh();
                if let Some(st2) = self.unify(st.clone(), &a[0], &T::cons(x.clone(), l1.clone())) {
                    if let Some(st3) = self.unify(st2, &a[2], &T::cons(x, l3.clone())) {
                        out.extend(self.call_rel(Rel::Append, &[l1, a[1].clone(), l3], st3)?);
                    }
                }
                Ok(out)
            }
            Rel::Rember => {
                // rember(x, [], []). rember(x, [x|d], d). rember(x, [y|ys], [y|zs]) :- y != x, rember(x, ys, zs).
                let mut out = vec![];
                if let Some(st2) = self.unify(st.clone(), &a[1], &T::Nil) {
                    if let Some(st3) = self.unify(st2, &a[2], &T::Nil) {
                        out.push(st3);
                    }
                }
                let h = self.fresh();
                let d = self.fresh();
                if let Some(st2) = self.unify(st.clone(), &a[1], &T::cons(h.clone(), d.clone())) {
                    if let Some(st3) = self.unify(st2, &a[2], &d) {
                        if let Some(st4) = self.unify(st3, &h, &a[0]) {
                            out.push(st4);
                        }
                    }
                }
                let y = self.fresh();
                let ys = self.fresh();
                let zs = self.fresh();
                if let Some(st2) = self.unify(st.clone(), &a[1], &T::cons(y.clone(), ys.clone())) {
                    if let Some(st3) = self.unify(st2, &a[2], &T::cons(y.clone(), zs.clone())) {
                        let mut st4 = st3;
                        st4.diseqs.push((y, a[0].clone()));
                        if let Some(st5) = self.settle(st4) {
                            out.extend(self.call_rel(Rel::Rember, &[a[0].clone(), ys, zs], st5)?);
                        }
                    }
                }
                Ok(out)
            }
            Rel::Permute => {
                // permute([], []). permute([x|xs], yl) :- permute(xs, ys), rember(x, yl, ys).
                let mut out = vec![];
                if let Some(st2) = self.unify(st.clone(), &a[0], &T::Nil) {
                    if let Some(st3) = self.unify(st2, &a[1], &T::Nil) {
                        out.push(st3);
                    }
                }
                let x = self.fresh();
                let xs = self.fresh();
                let ys = self.fresh();
                if let Some(st2) = self.unify(st.clone(), &a[0], &T::cons(x.clone(), xs.clone())) {
                    for st3 in self.call_rel(Rel::Permute, &[xs, ys.clone()], st2)? {
                        out.extend(self.call_rel(Rel::Rember, &[x.clone(), a[1].clone(), ys.clone()], st3)?);
                    }
                }
                Ok(out)
            }
            Rel::Distinct => {
                // distinct([]). distinct([_]). distinct([a,b|r]) :- a != b, distinct([a|r]), distinct([b|r]).
                let mut out = vec![];
                if let Some(st2) = self.unify(st.clone(), &a[0], &T::Nil) {
                    out.push(st2);
                }
                let o = self.fresh();
                if let Some(st2) = self.unify(st.clone(), &a[0], &T::list(vec![o])) {
                    out.push(st2);
                }
                let f = self.fresh();
                let s = self.fresh();
                let r = self.fresh();
                if let Some(st2) = self.unify(st.clone(), &a[0], &T::improper(vec![f.clone(), s.clone()], r.clone())) {
                    let mut st3 = st2;
                    st3.diseqs.push((f.clone(), s.clone()));
                    if let Some(st4) = self.settle(st3) {
                        for st5 in self.call_rel(Rel::Distinct, &[T::cons(f.clone(), r.clone())], st4)? {
                            out.extend(self.call_rel(Rel::Distinct, &[T::cons(s.clone(), r.clone())], st5)?);
                        }
                    }
                }
                Ok(out)
            }
        }
    }

    /// Brute-force CLP(FD) labeling of a leaf state. Returns the labeled leaf states, one per
    /// distinct assignment of the FD variables visible in `query`.
    pub fn label(&mut self, st: RState, query: &T) -> Result<Vec<RState>, RefErr> {
        if st.doms.is_empty() && st.fdc.is_empty() {
            return Ok(vec![st]);
        }
        // roots with candidate sets
        let mut cand: BTreeMap<V, BTreeSet<i64>> = BTreeMap::new();
        for (t, dom) in st.doms.iter() {
            let w = st.s.walk(t).clone();
            match &w {
                T::Int(i) => {
                    if !dom.contains(i) {
                        return Ok(vec![]);
                    }
                }
                T::Var(v) => {
                    let e = cand.entry(*v).or_insert_with(|| dom.clone());
                    *e = e.intersection(dom).copied().collect();
                    if e.is_empty() {
                        return Ok(vec![]);
                    }
                }
                _ => return Ok(vec![]),
            }
        }
        // every operand of an FD constraint must be an integer or a variable with a domain
        let mut operands: Vec<T> = vec![];
        for (op, args) in st.fdc.iter() {
            if *op == FdOp::Distinct {
                let l = st.s.walk_star(&args[0]);
                let (items, tail) = l.unroll();
                if *tail != T::Nil {
                    return Err(RefErr::Unsupported("distinctfd over a non-list"));
                }
                operands.extend(items.into_iter().cloned());
            } else {
                operands.extend(args.iter().cloned());
            }
        }
        for o in operands.iter() {
            match st.s.walk(o) {
                T::Int(_) => {}
                T::Var(v) => {
                    if !cand.contains_key(v) {
                        return Err(RefErr::Unsupported("FD operand without a domain"));
                    }
                }
                _ => return Ok(vec![]),
            }
        }
        let vars: Vec<V> = cand.keys().copied().collect();
        let visible: BTreeSet<V> = st.s.walk_star(query).vars().into_iter().collect();
        let mut total: u64 = 1;
        for v in &vars {
            total = total.saturating_mul(cand[v].len() as u64);
        }
        if total > 200_000 {
            return Err(RefErr::TooManyStates);
        }
        let mut out: Vec<RState> = vec![];
        let mut seen: BTreeSet<Vec<i64>> = BTreeSet::new();
        let doms: Vec<Vec<i64>> = vars.iter().map(|v| cand[v].iter().copied().collect()).collect();
        let mut idx = vec![0usize; vars.len()];
        'outer: loop {
            self.tick()?;
            // build the assignment
            let mut st2 = st.clone();
            let mut ok = true;
            for (k, v) in vars.iter().enumerate() {
                let mut ext = vec![];
                if !st2.s.unify(&T::Var(*v), &T::Int(doms[k][idx[k]]), &mut ext) {
                    ok = false;
                    break;
                }
            }
            if ok {
                if let Some(st3) = self.settle(st2) {
                    if fd_holds(&st3) {
                        let key: Vec<i64> = vars.iter().enumerate().filter(|(_, v)| visible.contains(v)).map(|(k, _)| doms[k][idx[k]]).collect();
                        if seen.insert(key) {
                            out.push(st3);
                        }
                    }
                }
            }
            // next index
            let mut k = 0;
            loop {
                if k == vars.len() {
                    break 'outer;
                }
                idx[k] += 1;
                if idx[k] < doms[k].len() {
                    break;
                }
                idx[k] = 0;
                k += 1;
            }
        }
        Ok(out)
    }

    /// Run the whole program; answers in depth-first order.
    pub fn run(&mut self) -> Result<Vec<RAnswer>, RefErr> {
        let mut env = Env::new();
        for v in &self.prog.qvars {
            let f = self.fresh();
            env.insert(*v, f);
        }
        let query = T::list(self.prog.qvars.iter().map(|v| env[v].clone()).collect());
        let body = self.prog.body.clone();
        let leaves = self.conj(&env, &body, RState::default())?;
        let mut out = vec![];
        for leaf in leaves {
            for st in self.label(leaf, &query)? {
                out.push(answer_of(&st, &query));
            }
        }
        Ok(out)
    }

    /// Leaf states (before labeling) together with the query tuple; for checks that need states.
    pub fn run_states(&mut self) -> Result<(T, Vec<RState>), RefErr> {
        let mut env = Env::new();
        for v in &self.prog.qvars {
            let f = self.fresh();
            env.insert(*v, f);
        }
        let query = T::list(self.prog.qvars.iter().map(|v| env[v].clone()).collect());
        let body = self.prog.body.clone();
        let leaves = self.conj(&env, &body, RState::default())?;
        Ok((query, leaves))
    }
}

fn fd_holds(st: &RState) -> bool {
    let val = |t: &T| -> Option<i64> { st.s.walk(t).as_int() };
    for (t, dom) in st.doms.iter() {
        match val(t) {
            Some(i) => {
                if !dom.contains(&i) {
                    return false;
                }
            }
            None => return false,
        }
    }
    for (op, args) in st.fdc.iter() {
        let ok = match op {
            FdOp::Distinct => {
                let l = st.s.walk_star(&args[0]);
                let (items, _) = l.unroll();
                let vals: Vec<Option<i64>> = items.iter().map(|t| t.as_int()).collect();
                if vals.iter().any(|v| v.is_none()) {
                    false
                } else {
                    let set: BTreeSet<i64> = vals.iter().map(|v| v.unwrap()).collect();
                    set.len() == vals.len()
                }
            }
            _ => {
                let v: Vec<Option<i64>> = args.iter().map(|t| val(t)).collect();
                if v.iter().any(|x| x.is_none()) {
                    false
                } else {
                    let v: Vec<i64> = v.into_iter().map(|x| x.unwrap()).collect();
                    match op {
                        FdOp::Lte => v[0] <= v[1],
                        FdOp::Lt => v[0] < v[1],
                        FdOp::Plus => v[0] + v[1] == v[2],
                        FdOp::Minus => v[0] - v[1] == v[2],
                        FdOp::Times => v[0] * v[1] == v[2],
                        FdOp::Ne => v[0] != v[1],
                        FdOp::Distinct => unreachable!(),
                    }
                }
            }
        };
        if !ok {
            return false;
        }
    }
    true
}

/// Extract the answer of a (labeled) leaf state.
pub fn answer_of(st: &RState, query: &T) -> RAnswer {
    let tuple = st.s.walk_star(query);
    let mut cons = vec![];
    for (a, b) in st.diseqs.iter() {
        let mut s2 = st.s.clone();
        let mut ext = vec![];
        if s2.unify(a, b, &mut ext) && !ext.is_empty() {
            let mut c: Vec<(V, T)> = ext.into_iter().map(|(v, t)| (v, s2.walk_star(&t))).collect();
            c.sort();
            cons.push(c);
        }
    }
    cons.sort();
    RAnswer { tuple, cons, tags: st.tags.clone(), unifs: st.unifs }
}
