//! Running programs on the real engine under the monitors: answer history recorder (M-ans),
//! step meter (M-step), path counters (M-path), panic monitor (M-panic), state monitors.
use crate::ast::Program;
use crate::build::*;
use crate::canon::Ans;
use crate::term::{T, V};
use proto_vulcan::lresult::LResult;
use proto_vulcan::query::{Query, QueryResult};
use proto_vulcan::relation::diseq::DisequalityConstraint;
use proto_vulcan::solver::Solver;
use proto_vulcan::verif;
use std::cell::RefCell;
use std::collections::HashMap;
use std::panic::{catch_unwind, AssertUnwindSafe};

pub struct R(pub Vec<LResult<U, E>>);
impl QueryResult<U, E> for R {
    fn from_vec(v: Vec<LResult<U, E>>) -> R {
        R(v)
    }
}

#[derive(Clone, Debug, Default)]
pub struct PanicInfo {
    pub message: String,
    pub location: String,
}

thread_local! {
    static LAST_PANIC: RefCell<Option<PanicInfo>> = RefCell::new(None);
}

/// Install a panic hook that records message and location per thread and prints nothing.
pub fn install_panic_hook() {
    std::panic::set_hook(Box::new(|info| {
        let message = if let Some(s) = info.payload().downcast_ref::<&str>() {
            s.to_string()
        } else if let Some(s) = info.payload().downcast_ref::<String>() {
            s.clone()
        } else if info.payload().is::<verif::StepBudgetExceeded>() {
            "StepBudgetExceeded".to_string()
        } else {
            "<non-string panic payload>".to_string()
        };
        let location = info.location().map(|l| format!("{}:{}", l.file(), l.line())).unwrap_or_default();
        if std::env::var_os("PVMON_TRACE").is_some() {
            eprintln!("TRACE panic '{}' at {}", message, location);
        }
        LAST_PANIC.with(|p| *p.borrow_mut() = Some(PanicInfo { message, location }));
    }));
}

pub fn take_last_panic() -> Option<PanicInfo> {
    LAST_PANIC.with(|p| p.borrow_mut().take())
}

#[derive(Clone, Debug)]
pub struct RunCfg {
    pub max_answers: usize,
    pub step_budget: u64,
    /// extra `next()` calls after the iterator returned None (fusedness)
    pub extra_next: usize,
    /// format every answer with Display (C23: formatting must not panic)
    pub display: bool,
}

impl Default for RunCfg {
    fn default() -> RunCfg {
        RunCfg { max_answers: 10_000, step_budget: 5_000_000, extra_next: 3, display: true }
    }
}

/// What one reported answer looked like before canonicalisation (for the C03 monitor).
#[derive(Clone, Debug, Default)]
pub struct RawAnswer {
    /// per query variable: term with variables numbered consistently across the whole answer
    pub terms: Vec<T>,
    /// names of all variables occurring in the answer terms (should all be "_")
    pub var_names: Vec<(V, String)>,
    /// reported constraints as (key, value) pairs, numbered with the same map
    pub cons: Vec<Vec<(T, T)>>,
    /// names of variables occurring only in constraints
    pub cons_var_names: Vec<(V, String)>,
    /// per query variable: `LResult::is_constrained()`
    pub constrained: Vec<bool>,
    /// per query variable: indices into `cons` of the constraints `LResult::constraints()` returned
    pub relevant: Vec<Vec<usize>>,
    pub display: String,
}

#[derive(Clone, Debug, Default)]
pub struct RunOut {
    pub answers: Vec<Ans>,
    pub raw: Vec<RawAnswer>,
    /// iterator returned None (stream exhausted) within max_answers
    pub ended: bool,
    /// a next() after None returned Some
    pub fused_violation: bool,
    pub steps: u64,
    pub top_steps: u64,
    /// top-level steps consumed when each answer arrived
    pub steps_at: Vec<u64>,
    pub paths: Option<verif::Paths>,
    pub budget_exceeded: bool,
    pub panic: Option<PanicInfo>,
}

fn convert_answer(res: &R, display: bool) -> (Ans, RawAnswer) {
    let mut names: HashMap<L, V> = HashMap::new();
    let mut next: V = 0;
    let mut raw = RawAnswer::default();
    let mut items = vec![];
    for r in res.0.iter() {
        let t = from_lterm(&r.0, &mut names, &mut next);
        items.push(t.clone());
        raw.terms.push(t);
    }
    for (l, v) in names.iter() {
        raw.var_names.push((*v, l.get_name().unwrap_or("").to_string()));
    }
    raw.var_names.sort();
    let tuple_var_count = next;
    let mut cons: Vec<Vec<(T, T)>> = vec![];
    let mut ptrs: Vec<*const ()> = vec![];
    if let Some(first) = res.0.first() {
        for c in first.1.iter() {
            if let Some(tree) = c.downcast_ref::<DisequalityConstraint<U, E>>() {
                let mut pairs: Vec<(T, T)> = vec![];
                for (k, v) in tree.smap_ref().iter() {
                    pairs.push((from_lterm(k, &mut names, &mut next), from_lterm(v, &mut names, &mut next)));
                }
                pairs.sort();
                cons.push(pairs);
                ptrs.push(std::rc::Rc::as_ptr(c) as *const ());
            }
        }
    }
    for (l, v) in names.iter() {
        if *v >= tuple_var_count {
            raw.cons_var_names.push((*v, l.get_name().unwrap_or("").to_string()));
        }
    }
    raw.cons_var_names.sort();
    for r in res.0.iter() {
        raw.constrained.push(r.is_constrained());
        let mut rel = vec![];
        for c in r.constraints() {
            let p = std::rc::Rc::as_ptr(c) as *const ();
            if let Some(i) = ptrs.iter().position(|q| *q == p) {
                rel.push(i);
            }
        }
        rel.sort();
        raw.relevant.push(rel);
    }
    raw.cons = cons.clone();
    if display {
        let mut s = String::new();
        for r in res.0.iter() {
            s.push_str(&format!("{} ; ", r));
        }
        raw.display = s;
    }
    let ans = Ans { tuple: T::list(items), cons }.renamed();
    (ans, raw)
}

/// Run a program through `Query`/`ResultIterator`, exactly the path `proto_vulcan_query!` users
/// take, under all boundary monitors.
fn trace(what: &str, prog: &Program) {
    if std::env::var_os("PVMON_TRACE").is_some() {
        eprintln!("TRACE {} {}", what, prog);
    }
}

pub fn run_query(prog: &Program, cfg: &RunCfg) -> RunOut {
    trace("run_query", prog);
    let mut out = RunOut::default();
    let _ = take_last_panic();
    let _ = verif::take_paths();
    verif::reset(cfg.step_budget);
    let r = catch_unwind(AssertUnwindSafe(|| {
        let b = Builder::new(prog);
        let mut env = Env::new();
        let (qvars, goal) = b.query_goal(&mut env);
        let query: Query<R, U, E> = Query::new(qvars, goal);
        let mut it = query.run_with_user(Mon::default(), ());
        let mut answers = vec![];
        let mut raws = vec![];
        let mut steps_at = vec![];
        let mut ended = false;
        let mut fused_violation = false;
        while answers.len() < cfg.max_answers {
            match it.next() {
                Some(res) => {
                    let (a, raw) = convert_answer(&res, cfg.display);
                    answers.push(a);
                    raws.push(raw);
                    steps_at.push(verif::top_steps());
                }
                None => {
                    ended = true;
                    for _ in 0..cfg.extra_next {
                        if it.next().is_some() {
                            fused_violation = true;
                        }
                    }
                    break;
                }
            }
        }
        (answers, raws, steps_at, ended, fused_violation)
    }));
    out.steps = verif::steps();
    out.top_steps = verif::top_steps();
    out.paths = Some(verif::take_paths());
    verif::reset(u64::MAX);
    match r {
        Ok((answers, raws, steps_at, ended, fv)) => {
            out.answers = answers;
            out.raw = raws;
            out.steps_at = steps_at;
            out.ended = ended;
            out.fused_violation = fv;
        }
        Err(e) => {
            if e.is::<verif::StepBudgetExceeded>() {
                out.budget_exceeded = true;
                let _ = take_last_panic();
            } else {
                out.panic = Some(take_last_panic().unwrap_or_default());
            }
        }
    }
    out
}

/// Like `run_query` but keeps the answers produced before a budget overrun.
pub fn run_query_prefix(prog: &Program, cfg: &RunCfg) -> RunOut {
    trace("run_query_prefix", prog);
    let mut out = RunOut::default();
    let _ = take_last_panic();
    let _ = verif::take_paths();
    verif::reset(cfg.step_budget);
    let answers: RefCell<Vec<Ans>> = RefCell::new(vec![]);
    let steps_at: RefCell<Vec<u64>> = RefCell::new(vec![]);
    let flags: RefCell<(bool, bool)> = RefCell::new((false, false));
    let r = catch_unwind(AssertUnwindSafe(|| {
        let b = Builder::new(prog);
        let mut env = Env::new();
        let (qvars, goal) = b.query_goal(&mut env);
        let query: Query<R, U, E> = Query::new(qvars, goal);
        let mut it = query.run_with_user(Mon::default(), ());
        while answers.borrow().len() < cfg.max_answers {
            match it.next() {
                Some(res) => {
                    let (a, _raw) = convert_answer(&res, false);
                    answers.borrow_mut().push(a);
                    steps_at.borrow_mut().push(verif::top_steps());
                }
                None => {
                    flags.borrow_mut().0 = true;
                    for _ in 0..cfg.extra_next {
                        if it.next().is_some() {
                            flags.borrow_mut().1 = true;
                        }
                    }
                    break;
                }
            }
        }
    }));
    out.steps = verif::steps();
    out.top_steps = verif::top_steps();
    out.paths = Some(verif::take_paths());
    verif::reset(u64::MAX);
    out.answers = answers.into_inner();
    out.steps_at = steps_at.into_inner();
    let (ended, fv) = flags.into_inner();
    out.ended = ended;
    out.fused_violation = fv;
    if let Err(e) = r {
        if e.is::<verif::StepBudgetExceeded>() {
            out.budget_exceeded = true;
            let _ = take_last_panic();
        } else {
            out.panic = Some(take_last_panic().unwrap_or_default());
        }
    }
    out
}

/// A final state reached by driving `Solver` by hand, with what the monitors need from it.
pub struct FinalState {
    pub state: Box<St>,
    /// state-level answer: walk* of the query variables and the stored disequalities
    pub answer: Ans,
}

pub struct StatesOut {
    pub finals: Vec<FinalState>,
    pub probes: Vec<ProbeRec>,
    pub ended: bool,
    pub budget_exceeded: bool,
    pub panic: Option<PanicInfo>,
    pub steps: u64,
    /// AST variable -> real variable of the top-level environment (query variables)
    pub qvars: Vec<L>,
}

/// Drive the solver by hand over the same query goal and keep every final state and every
/// probe record (clones of the states the probes saw).
pub fn run_states(prog: &Program, cfg: &RunCfg, with_reify: bool) -> StatesOut {
    trace("run_states", prog);
    let _ = take_last_panic();
    let _ = verif::take_paths();
    let _ = take_probes();
    PROBE_KEEP.with(|k| *k.borrow_mut() = true);
    verif::reset(cfg.step_budget);
    let finals: RefCell<Vec<FinalState>> = RefCell::new(vec![]);
    let ended = RefCell::new(false);
    let qv: RefCell<Vec<L>> = RefCell::new(vec![]);
    let r = catch_unwind(AssertUnwindSafe(|| {
        let b = Builder::new(prog);
        let mut env = Env::new();
        let goal = if with_reify {
            let (qvars, goal) = b.query_goal(&mut env);
            *qv.borrow_mut() = qvars;
            goal
        } else {
            let qvars: Vec<L> = prog.qvars.iter().map(|v| env.declare(*v)).collect();
            *qv.borrow_mut() = qvars;
            b.body_goal(&mut env)
        };
        let mut solver: Solver<U, E> = Solver::new((), false);
        let mut stream = solver.start(&goal, St::new(Mon::default()));
        while finals.borrow().len() < cfg.max_answers {
            match solver.next(&mut stream) {
                Some(state) => {
                    let answer = state_answer(&state, &qv.borrow());
                    finals.borrow_mut().push(FinalState { state, answer });
                }
                None => {
                    *ended.borrow_mut() = true;
                    break;
                }
            }
        }
    }));
    let steps = verif::steps();
    verif::reset(u64::MAX);
    let _ = verif::take_paths();
    PROBE_KEEP.with(|k| *k.borrow_mut() = false);
    let probes = take_probes();
    let mut out = StatesOut { finals: finals.into_inner(), probes, ended: ended.into_inner(), budget_exceeded: false, panic: None, steps, qvars: qv.into_inner() };
    if let Err(e) = r {
        if e.is::<verif::StepBudgetExceeded>() {
            out.budget_exceeded = true;
            let _ = take_last_panic();
        } else {
            out.panic = Some(take_last_panic().unwrap_or_default());
        }
    }
    out
}

/// Answer read directly off a state (no reification): walk* of the query variables plus the
/// stored disequality constraints walked.
pub fn state_answer(state: &St, qvars: &[L]) -> Ans {
    let mut names: HashMap<L, V> = HashMap::new();
    let mut next: V = 0;
    let smap = state.smap_ref();
    let items: Vec<T> = qvars.iter().map(|q| from_lterm(&smap.walk_star(q), &mut names, &mut next)).collect();
    let mut cons = vec![];
    for c in state.cstore_ref().iter() {
        if let Some(tree) = c.downcast_ref::<DisequalityConstraint<U, E>>() {
            let mut pairs = vec![];
            for (k, v) in tree.smap_ref().iter() {
                pairs.push((from_lterm(&smap.walk_star(k), &mut names, &mut next), from_lterm(&smap.walk_star(v), &mut names, &mut next)));
            }
            cons.push(pairs);
        }
    }
    Ans { tuple: T::list(items), cons }.renamed()
}

/// Run a closure on a big-stack thread and return its result.
pub fn on_big_stack<F, X>(f: F) -> X
where
    F: FnOnce() -> X + Send + 'static,
    X: Send + 'static,
{
    std::thread::Builder::new().stack_size(1 << 30).spawn(f).expect("spawn").join().expect("worker thread panicked outside catch_unwind")
}

struct AssertSend<X>(X);
// SAFETY: used only by `on_fresh_thread`, where the spawning thread blocks in `join()` for the
// whole life of the child: values move to the child and back, they are never accessed from two
// threads at once. (The harness's terms use `Rc`; programs handed to the child are deep copies
// or are not touched by the parent until the child has finished.)
unsafe impl<X> Send for AssertSend<X> {}

/// Run `f` on a fresh thread (fresh SipHash keys for every HashMap/HashSet created there, its own
/// thread-locals) with a big stack, and wait for it.
pub fn on_fresh_thread<F, X>(f: F) -> X
where
    F: FnOnce() -> X,
    X: 'static,
    F: 'static,
{
    let wrapped = AssertSend(f);
    let handle = std::thread::Builder::new()
        .stack_size(1 << 30)
        .spawn(move || {
            let w = wrapped;
            AssertSend((w.0)())
        })
        .expect("spawn");
    handle.join().expect("monitor thread panicked outside catch_unwind").0
}

/// What one run on a fresh thread observed, reduced to plain data.
#[derive(Clone, Debug, Default)]
pub struct SeedRun {
    pub answers: Vec<Ans>,
    pub ended: bool,
    pub budget_exceeded: bool,
    pub fused_violation: bool,
    pub panic: Option<PanicInfo>,
    pub steps: u64,
}

/// Run the same program `n` times, each on a fresh thread (different hash seeds).
pub fn run_query_seeds(prog: &Program, cfg: &RunCfg, n: usize) -> Vec<SeedRun> {
    let mut out = vec![];
    for _ in 0..n {
        let p = prog.clone();
        let c = cfg.clone();
        let r = on_fresh_thread(move || {
            let r = run_query(&p, &c);
            SeedRun { answers: r.answers, ended: r.ended, budget_exceeded: r.budget_exceeded, fused_violation: r.fused_violation, panic: r.panic, steps: r.steps }
        });
        out.push(r);
    }
    out
}

/// State-level run on a fresh thread: final-state answers, wake-up order signatures (M-user),
/// and the M-state invariant violations found at probes and final states.
#[derive(Clone, Debug, Default)]
pub struct SeedStates {
    pub answers: Vec<Ans>,
    pub wake_sigs: Vec<u64>,
    pub invariant_violations: Vec<(String, String)>,
    pub probe_states: u64,
    pub final_states: u64,
    pub ended: bool,
    pub budget_exceeded: bool,
    pub panic: Option<PanicInfo>,
}

pub fn run_states_seed(prog: &Program, cfg: &RunCfg, with_reify: bool, invariants: fn(&St) -> Vec<(String, String)>) -> SeedStates {
    let p = prog.clone();
    let c = cfg.clone();
    on_fresh_thread(move || {
        let st = run_states(&p, &c, with_reify);
        let mut o = SeedStates::default();
        o.ended = st.ended;
        o.budget_exceeded = st.budget_exceeded;
        o.panic = st.panic.clone();
        for rec in st.probes.iter() {
            o.probe_states += 1;
            for (sig, msg) in invariants(&rec.state) {
                o.invariant_violations.push((sig, format!("at probe {}: {}", rec.id, msg)));
            }
        }
        for f in st.finals.iter() {
            o.final_states += 1;
            o.wake_sigs.push(f.state.user_state.wake_sig);
            o.answers.push(f.answer.clone());
            for (sig, msg) in invariants(&f.state) {
                o.invariant_violations.push((sig, format!("at final state: {}", msg)));
            }
        }
        o
    })
}

/// Run a query and hand every answer to `on_answer(answer, steps so far)` as it arrives; stops
/// when the callback returns true, the stream ends, `max_answers` is reached or the step budget
/// trips. Answers seen so far survive a budget overrun.
pub fn run_query_until(prog: &Program, step_budget: u64, max_answers: usize, on_answer: &mut dyn FnMut(&Ans, u64) -> bool) -> RunOut {
    trace("run_query_until", prog);
    let mut out = RunOut::default();
    let _ = take_last_panic();
    let _ = verif::take_paths();
    verif::reset(step_budget);
    let n = RefCell::new(0usize);
    let ended = RefCell::new(false);
    let cb = RefCell::new(on_answer);
    let r = catch_unwind(AssertUnwindSafe(|| {
        let b = Builder::new(prog);
        let mut env = Env::new();
        let (qvars, goal) = b.query_goal(&mut env);
        let query: Query<R, U, E> = Query::new(qvars, goal);
        let mut it = query.run_with_user(Mon::default(), ());
        while *n.borrow() < max_answers {
            match it.next() {
                Some(res) => {
                    let (a, _raw) = convert_answer(&res, false);
                    *n.borrow_mut() += 1;
                    let stop = (&mut *cb.borrow_mut())(&a, verif::steps());
                    if stop {
                        break;
                    }
                }
                None => {
                    *ended.borrow_mut() = true;
                    break;
                }
            }
        }
    }));
    out.steps = verif::steps();
    out.top_steps = verif::top_steps();
    out.paths = Some(verif::take_paths());
    verif::reset(u64::MAX);
    out.ended = ended.into_inner();
    if let Err(e) = r {
        if e.is::<verif::StepBudgetExceeded>() {
            out.budget_exceeded = true;
            let _ = take_last_panic();
        } else {
            out.panic = Some(take_last_panic().unwrap_or_default());
        }
    }
    out
}

/// Build the query ONCE and run the same `Query` value `n` times in this thread (goal objects
/// are shared between the runs). Only answers/ended/panic/budget are recorded per run.
pub fn run_same_query_n(prog: &Program, cfg: &RunCfg, n: usize) -> Vec<SeedRun> {
    trace("run_same_query_n", prog);
    let mut outs = vec![];
    let built = catch_unwind(AssertUnwindSafe(|| {
        let b = Builder::new(prog);
        let mut env = Env::new();
        let (qvars, goal) = b.query_goal(&mut env);
        let q: Query<R, U, E> = Query::new(qvars, goal);
        q
    }));
    let query = match built {
        Ok(q) => q,
        Err(_) => {
            let mut s = SeedRun::default();
            s.panic = Some(take_last_panic().unwrap_or_default());
            return vec![s];
        }
    };
    for _ in 0..n {
        let mut s = SeedRun::default();
        let _ = take_last_panic();
        verif::reset(cfg.step_budget);
        let answers: RefCell<Vec<Ans>> = RefCell::new(vec![]);
        let flags: RefCell<(bool, bool)> = RefCell::new((false, false));
        let r = catch_unwind(AssertUnwindSafe(|| {
            let mut it = query.run_with_user(Mon::default(), ());
            while answers.borrow().len() < cfg.max_answers {
                match it.next() {
                    Some(res) => {
                        let (a, _raw) = convert_answer(&res, false);
                        answers.borrow_mut().push(a);
                    }
                    None => {
                        flags.borrow_mut().0 = true;
                        for _ in 0..cfg.extra_next {
                            if it.next().is_some() {
                                flags.borrow_mut().1 = true;
                            }
                        }
                        break;
                    }
                }
            }
        }));
        s.steps = verif::steps();
        verif::reset(u64::MAX);
        let _ = verif::take_paths();
        s.answers = answers.into_inner();
        let (ended, fv) = flags.into_inner();
        s.ended = ended;
        s.fused_violation = fv;
        if let Err(e) = r {
            if e.is::<verif::StepBudgetExceeded>() {
                s.budget_exceeded = true;
                let _ = take_last_panic();
            } else {
                s.panic = Some(take_last_panic().unwrap_or_default());
            }
        }
        outs.push(s);
    }
    outs
}

/// Two iterators of queries that are alive at the same time: query A and query B are built (A first),
/// iterator 1 of B yields `k` answers, then a SECOND iterator of B is started and exhausted, then the
/// older query A is run to the end (or the cap), then iterator 1 is continued to its end. Returns (answers of
/// iterator 1, answers of iterator 2 of B). Each must be what B yields when run alone.
pub fn run_query_interleaved(prog_a: &Program, prog_b: &Program, cfg: &RunCfg, k: usize) -> (SeedRun, SeedRun) {
    trace("run_query_interleaved", prog_b);
    let mut first = SeedRun::default();
    let mut second = SeedRun::default();
    let _ = take_last_panic();
    verif::reset(cfg.step_budget.saturating_mul(3));
    let a1: RefCell<Vec<Ans>> = RefCell::new(vec![]);
    let a2: RefCell<Vec<Ans>> = RefCell::new(vec![]);
    let ended: RefCell<(bool, bool)> = RefCell::new((false, false));
    let r = catch_unwind(AssertUnwindSafe(|| {
        let ba = Builder::new(prog_a);
        let mut env_a = Env::new();
        let (qa, ga) = ba.query_goal(&mut env_a);
        let query_a: Query<R, U, E> = Query::new(qa, ga);
        let bb = Builder::new(prog_b);
        let mut env_b = Env::new();
        let (qb, gb) = bb.query_goal(&mut env_b);
        let query_b: Query<R, U, E> = Query::new(qb, gb);
        let mut it1 = query_b.run_with_user(Mon::default(), ());
        for _ in 0..k {
            match it1.next() {
                Some(res) => a1.borrow_mut().push(convert_answer(&res, false).0),
                None => {
                    ended.borrow_mut().0 = true;
                    break;
                }
            }
        }
        // a second iterator of the same query value
        let mut it2 = query_b.run_with_user(Mon::default(), ());
        while a2.borrow().len() < cfg.max_answers {
            match it2.next() {
                Some(res) => a2.borrow_mut().push(convert_answer(&res, false).0),
                None => {
                    ended.borrow_mut().1 = true;
                    break;
                }
            }
        }
        // the older query is run while iterator 1 is suspended
        let mut n = 0;
        for _res in query_a.run_with_user(Mon::default(), ()) {
            n += 1;
            if n >= cfg.max_answers {
                break;
            }
        }
        if !ended.borrow().0 {
            while a1.borrow().len() < cfg.max_answers {
                match it1.next() {
                    Some(res) => a1.borrow_mut().push(convert_answer(&res, false).0),
                    None => {
                        ended.borrow_mut().0 = true;
                        break;
                    }
                }
            }
        }
    }));
    first.steps = verif::steps();
    verif::reset(u64::MAX);
    let _ = verif::take_paths();
    first.answers = a1.into_inner();
    second.answers = a2.into_inner();
    let (e1, e2) = ended.into_inner();
    first.ended = e1;
    second.ended = e2;
    if let Err(e) = r {
        if e.is::<verif::StepBudgetExceeded>() {
            first.budget_exceeded = true;
            second.budget_exceeded = true;
            let _ = take_last_panic();
        } else {
            let p = take_last_panic().unwrap_or_default();
            first.panic = Some(p.clone());
            second.panic = Some(p);
        }
    }
    (first, second)
}
