//! Greedy program shrinking: repeatedly try structurally smaller variants while the caller's
//! predicate (the same monitor still fires) holds. Bounded effort.
use crate::ast::*;

fn goal_lists_len(g: &G) -> usize {
    g.clauses().len()
}

/// All one-step reductions of a goal list.
fn reduce_list(gs: &[G]) -> Vec<Vec<G>> {
    let mut out = vec![];
    // drop one goal
    for i in 0..gs.len() {
        let mut v = gs.to_vec();
        v.remove(i);
        out.push(v);
    }
    // replace one goal by a reduction of it
    for i in 0..gs.len() {
        for r in reduce_goal(&gs[i]) {
            let mut v = gs.to_vec();
            match r {
                Red::Goal(g) => v[i] = g,
                Red::Splice(gs2) => {
                    v.remove(i);
                    for (k, g) in gs2.into_iter().enumerate() {
                        v.insert(i + k, g);
                    }
                }
            }
            out.push(v);
        }
    }
    out
}

enum Red {
    Goal(G),
    Splice(Vec<G>),
}

fn rebuild(g: &G, clauses: Vec<Vec<G>>) -> G {
    match g {
        G::Conj(_) => G::Conj(clauses.into_iter().next().unwrap_or_default()),
        G::Fresh(vs, _) => G::Fresh(vs.clone(), clauses.into_iter().next().unwrap_or_default()),
        G::Project(vs, _) => G::Project(vs.clone(), clauses.into_iter().next().unwrap_or_default()),
        G::Closure(_) => G::Closure(clauses.into_iter().next().unwrap_or_default()),
        G::Conde(_) => G::Conde(clauses),
        G::Cond(_) => G::Cond(clauses),
        G::Dfs(_) => G::Dfs(clauses),
        G::Loop(_) => G::Loop(clauses),
        G::Conda(_) => G::Conda(clauses),
        G::Condu(_) => G::Condu(clauses),
        G::Onceo(_) => G::Onceo(clauses),
        G::For(v, k, coll, _) => G::For(*v, *k, coll.clone(), clauses),
        G::Match(k, s, arms) => G::Match(*k, s.clone(), arms.iter().zip(clauses.into_iter()).map(|(a, body)| Arm { pats: a.pats.clone(), body }).collect()),
        other => other.clone(),
    }
}

fn reduce_goal(g: &G) -> Vec<Red> {
    let mut out = vec![];
    let cls: Vec<Vec<G>> = g.clauses().into_iter().cloned().collect();
    if cls.is_empty() {
        return out;
    }
    let is_multi = matches!(g, G::Conde(_) | G::Cond(_) | G::Dfs(_) | G::Loop(_) | G::Conda(_) | G::Condu(_) | G::Onceo(_));
    // hoist a clause body in place of the whole goal (not for binders whose variables the body needs)
    if matches!(g, G::Conj(_)) || is_multi {
        for c in cls.iter() {
            out.push(Red::Splice(c.clone()));
        }
    }
    // drop a clause / arm
    if is_multi && cls.len() > 1 {
        for i in 0..cls.len() {
            let mut v = cls.clone();
            v.remove(i);
            out.push(Red::Goal(rebuild(g, v)));
        }
    }
    if let G::Match(k, s, arms) = g {
        if arms.len() > 1 {
            for i in 0..arms.len() {
                let mut a = arms.clone();
                a.remove(i);
                out.push(Red::Goal(G::Match(*k, s.clone(), a)));
            }
        }
        for (i, arm) in arms.iter().enumerate() {
            if arm.pats.len() > 1 {
                for j in 0..arm.pats.len() {
                    let mut a = arms.clone();
                    a[i].pats.remove(j);
                    out.push(Red::Goal(G::Match(*k, s.clone(), a)));
                }
            }
        }
    }
    // reduce inside one clause
    for (i, c) in cls.iter().enumerate() {
        for r in reduce_list(c) {
            if is_multi && r.is_empty() {
                continue;
            }
            let mut v = cls.clone();
            v[i] = r;
            out.push(Red::Goal(rebuild(g, v)));
        }
    }
    let _ = goal_lists_len(g);
    out
}

/// Is every variable used by the program in scope where it is used? (Reductions can drop binders'
/// uses but never binders themselves except by hoisting, which we only do for non-binders.)
pub fn shrink_program(p: &Program, still_fails: &mut dyn FnMut(&Program) -> bool, max_tests: usize) -> Program {
    let mut cur = p.clone();
    let mut tests = 0;
    'outer: loop {
        let cands = reduce_list(&cur.body);
        for body in cands {
            if tests >= max_tests {
                break 'outer;
            }
            let cand = Program { rels: cur.rels.clone(), qvars: cur.qvars.clone(), body };
            if cand.size() >= cur.size() {
                continue;
            }
            tests += 1;
            if still_fails(&cand) {
                cur = cand;
                continue 'outer;
            }
        }
        break;
    }
    cur
}
