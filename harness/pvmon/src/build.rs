//! API path: AST -> real proto-vulcan goals, through exactly the public constructors the macros
//! expand to. Everything runs with the instrumented user type `Mon`.
use crate::ast::*;
use crate::term::{T, V};
use proto_vulcan::compound::CompoundObject;
use proto_vulcan::engine::{DefaultEngine, Engine};
use proto_vulcan::goal::{AnyGoal, DFSGoal, Goal};
use proto_vulcan::lterm::{LTerm, LTermInner};
use proto_vulcan::lvalue::LValue;
use proto_vulcan::operator::closure::Closure;
use proto_vulcan::operator::conde::Conde;
use proto_vulcan::operator::conj::{Conj, InferredConj};
use proto_vulcan::operator::fngoal::FnGoal;
use proto_vulcan::operator::fresh::Fresh;
use proto_vulcan::operator::{self, ClosureOperatorParam, ForOperatorParam, OperatorParam, PatternMatchOperatorParam};
use proto_vulcan::relation;
use proto_vulcan::solver::Solver;
use proto_vulcan::state::constraint::Constraint;
use proto_vulcan::state::{SMap, SResult, State};
use proto_vulcan::stream::Stream;
use proto_vulcan::user::User;
use proto_vulcan::GoalCast;
use std::any::Any;
use std::cell::RefCell;
use std::collections::HashMap;
use std::rc::Rc;

pub mod comp {
    #![allow(non_snake_case, dead_code)]
    use proto_vulcan::prelude::*;

    #[compound]
    pub struct Pair(LTerm, LTerm);

    #[compound]
    pub struct Triple(LTerm, LTerm, LTerm);

    #[compound]
    pub struct Named {
        a: LTerm,
        b: LTerm,
    }
}

pub type U = Mon;
pub type E = DefaultEngine<Mon>;
pub type L = LTerm<U, E>;
pub type St = State<U, E>;
pub type BGoal = Goal<U, E>;
pub type DGoal = DFSGoal<U, E>;

/// Instrumented user state: an event log carried (and cloned) with every search state.
#[derive(Clone, Debug, Default)]
pub struct Mon {
    pub with: u32,
    pub take: u32,
    /// rolling hash over the sequence of constraints taken out of the store (wake-up order)
    pub wake_sig: u64,
    pub wakes: u32,
    /// every extension passed to `process_extension`, as (variable, value) pairs
    pub exts: Vec<Vec<(L, L)>>,
    /// probe tags in the order this lineage passed them
    pub tags: Vec<u32>,
}

fn constraint_sig(c: &Rc<dyn Constraint<U, E>>) -> u64 {
    let dbg = format!("{:?}", c);
    let name: &str = dbg.split(|ch: char| !ch.is_alphanumeric() && ch != '_').next().unwrap_or("");
    let mut h = crate::util::fnv(name);
    if !name.starts_with("Disequality") {
        for o in c.operands() {
            h = h.wrapping_mul(31).wrapping_add(crate::util::fnv(&format!("{}", o)));
        }
    }
    h
}

impl User for Mon {
    type UserTerm = ();
    type UserContext = ();

    fn process_extension<EE: Engine<Self>>(mut state: State<Self, EE>, ext: &SMap<Self, EE>) -> SResult<Self, EE> {
        if let Some(ext) = (ext as &dyn Any).downcast_ref::<SMap<Mon, E>>() {
            let pairs: Vec<(L, L)> = ext.iter().map(|(k, v)| (k.clone(), v.clone())).collect();
            state.user_state.exts.push(pairs);
        }
        Ok(state)
    }

    fn with_constraint<EE: Engine<Self>>(state: &mut State<Self, EE>, _c: &Rc<dyn Constraint<Self, EE>>) {
        state.user_state.with += 1;
    }

    fn take_constraint<EE: Engine<Self>>(state: &mut State<Self, EE>, c: &Rc<dyn Constraint<Self, EE>>) {
        state.user_state.take += 1;
        if let Some(c) = (c as &dyn Any).downcast_ref::<Rc<dyn Constraint<Mon, E>>>() {
            let s = constraint_sig(c);
            state.user_state.wake_sig = state.user_state.wake_sig.wrapping_mul(0x100000001b3).wrapping_add(s);
            state.user_state.wakes += 1;
        }
    }
}

/// Leaked, unique `'static` variable names `v0`, `v1`, ...
pub fn var_name(v: V) -> &'static str {
    thread_local! {
        static NAMES: RefCell<Vec<&'static str>> = RefCell::new(Vec::new());
    }
    NAMES.with(|n| {
        let mut n = n.borrow_mut();
        while n.len() <= v as usize {
            let s: &'static str = Box::leak(format!("v{}", n.len()).into_boxed_str());
            n.push(s);
        }
        n[v as usize]
    })
}

/// Search mode of the goal being built.
pub trait Mode: AnyGoal<U, E> + GoalCast<U, E, Self> + Sized {
    const IS_DFS: bool;
    fn from_bfs(g: BGoal) -> Self;
}
impl Mode for BGoal {
    const IS_DFS: bool = false;
    fn from_bfs(g: BGoal) -> Self {
        g
    }
}
impl Mode for DGoal {
    const IS_DFS: bool = true;
    fn from_bfs(_g: BGoal) -> Self {
        panic!("harness bug: BFS-only goal inside dfs")
    }
}

#[derive(Clone, Default)]
pub struct Env {
    pub map: HashMap<V, L>,
}

impl Env {
    pub fn new() -> Env {
        Env { map: HashMap::new() }
    }
    pub fn declare(&mut self, v: V) -> L {
        let l: L = LTerm::var(var_name(v));
        self.map.insert(v, l.clone());
        l
    }
    pub fn get(&self, v: V) -> L {
        match self.map.get(&v) {
            Some(l) => l.clone(),
            None => panic!("harness bug: unbound AST variable v{}", v),
        }
    }
}

/// A probe record: the state a `Probe(id)` goal saw.
pub struct ProbeRec {
    pub id: u32,
    pub state: St,
    /// order-insensitive fingerprint of `state` taken at capture time (M-snap)
    pub fp: String,
}

/// Order-insensitive rendering of everything a state holds: substitution, constraint store
/// (including the internals of every constraint object), domain store, user state.
pub fn state_fingerprint(state: &St) -> String {
    let mut parts: Vec<String> = vec![];
    for (k, v) in state.smap_ref().iter() {
        parts.push(format!("S {:?} => {:?}", k, v));
    }
    for c in state.cstore_ref().iter() {
        parts.push(format!("C {:?}", c));
    }
    for (k, d) in state.dstore_ref().iter() {
        parts.push(format!("D {:?} => {:?}", k, d));
    }
    parts.sort();
    parts.push(format!("U with={} take={} tags={:?} exts={}", state.user_state.with, state.user_state.take, state.user_state.tags, state.user_state.exts.len()));
    parts.join("\n")
}

thread_local! {
    /// M-proj: (observations, mismatch descriptions)
    pub static PROJ_LOG: RefCell<(u64, Vec<String>)> = RefCell::new((0, Vec::new()));
    pub static PROBES: RefCell<Vec<ProbeRec>> = RefCell::new(Vec::new());
    pub static PROBE_KEEP: RefCell<bool> = RefCell::new(false);
    pub static PROBE_COUNT: RefCell<u64> = RefCell::new(0);
    /// Optional hook run at each probe with (id, state); may veto (return false => branch fails).
    pub static PROBE_HOOK: RefCell<Option<Rc<dyn Fn(u32, &St) -> bool>>> = RefCell::new(None);
}

pub fn take_proj_log() -> (u64, Vec<String>) {
    PROJ_LOG.with(|l| std::mem::take(&mut *l.borrow_mut()))
}

pub fn take_probes() -> Vec<ProbeRec> {
    PROBES.with(|p| std::mem::take(&mut *p.borrow_mut()))
}

pub struct Builder {
    pub prog: Rc<Program>,
}

pub fn to_lterm(env: &Env, t: &T) -> L {
    match t {
        T::Int(i) => LTerm::from(*i as isize),
        T::Bool(b) => LTerm::from(*b),
        T::Char(c) => LTerm::from(*c),
        T::Str(s) => LTerm::from(s.as_str()),
        T::Var(v) => env.get(*v),
        T::Any => LTerm::any(),
        T::Nil => LTerm::empty_list(),
        T::Cons(h, tl) => LTerm::cons(to_lterm(env, h), to_lterm(env, tl)),
        T::Comp(name, fs) => {
            let f: Vec<L> = fs.iter().map(|x| to_lterm(env, x)).collect();
            match (*name, f.len()) {
                ("Pair", 2) => Into::<L>::into(comp::Pair_compound::_InnerPair(f[0].clone(), f[1].clone())),
                ("Triple", 3) => Into::<L>::into(comp::Triple_compound::_InnerTriple(f[0].clone(), f[1].clone(), f[2].clone())),
                ("Named", 2) => Into::<L>::into(comp::Named_compound::_InnerNamed { a: f[0].clone(), b: f[1].clone() }),
                ("", 2) => Into::<L>::into((f[0].clone(), f[1].clone())),
                ("Some", 1) => Into::<L>::into(Some(f[0].clone())),
                _ => panic!("harness bug: unknown compound {}/{}", name, f.len()),
            }
        }
    }
}

/// Convert a real term into the harness term type. Variables are numbered through `names`
/// (existing entries are reused, unknown variables get fresh numbers from `next`).
pub fn from_lterm(l: &L, names: &mut HashMap<L, V>, next: &mut V) -> T {
    match l.as_ref() {
        LTermInner::Val(LValue::Number(n)) => T::Int(*n as i64),
        LTermInner::Val(LValue::Bool(b)) => T::Bool(*b),
        LTermInner::Val(LValue::Char(c)) => T::Char(*c),
        LTermInner::Val(LValue::String(s)) => T::Str(s.clone()),
        LTermInner::Var(_, _) => {
            if let Some(v) = names.get(l) {
                T::Var(*v)
            } else {
                let v = *next;
                *next += 1;
                names.insert(l.clone(), v);
                T::Var(v)
            }
        }
        LTermInner::User(_) => T::s("#user"),
        LTermInner::Empty => T::Nil,
        LTermInner::Cons(h, t) => {
            // iterative on the spine to keep recursion shallow for long lists
            let mut items = vec![from_lterm(h, names, next)];
            let mut cur = t.clone();
            loop {
                let nxt = match cur.as_ref() {
                    LTermInner::Cons(h2, t2) => {
                        items.push(from_lterm(h2, names, next));
                        t2.clone()
                    }
                    _ => break,
                };
                cur = nxt;
            }
            let tail = from_lterm(&cur, names, next);
            T::improper(items, tail)
        }
        LTermInner::Projection(p) => T::Comp("Some", vec![T::s("#projection"), from_lterm(p, names, next)]),
        LTermInner::Compound(obj) => from_compound(obj.as_ref(), names, next),
    }
}

fn from_compound(obj: &dyn CompoundObject<U, E>, names: &mut HashMap<L, V>, next: &mut V) -> T {
    let name = obj.type_name();
    let name: &'static str = match name {
        "Pair" => "Pair",
        "Triple" => "Triple",
        "Named" => "Named",
        "Some" => "Some",
        "" => "",
        other => Box::leak(other.to_string().into_boxed_str()),
    };
    let fields: Vec<T> = obj
        .children()
        .map(|c| match c.as_term() {
            Some(t) => from_lterm(t, names, next),
            None => from_compound(c, names, next),
        })
        .collect();
    T::Comp(name, fields)
}

impl Builder {
    pub fn new(prog: &Program) -> Rc<Builder> {
        Rc::new(Builder { prog: Rc::new(prog.clone()) })
    }

    fn clause<M: Mode>(self: &Rc<Self>, env: &mut Env, c: &[G]) -> Vec<M> {
        // A `closure { }` goal that is written twice in a row is built ONCE and the goal VALUE is
        // used twice (`let g = closure..; [g.clone(), g]`): every invocation of a closure goal
        // must instantiate its body afresh, so this denotes the same as two separate goals.
        let mut out: Vec<M> = vec![];
        for (i, g) in c.iter().enumerate() {
            if i > 0 && matches!(g, G::Closure(_)) && c[i - 1] == *g {
                let prev = out[i - 1].clone();
                out.push(prev);
            } else {
                out.push(self.goal::<M>(env, g));
            }
        }
        out
    }

    fn clauses<M: Mode>(self: &Rc<Self>, env: &mut Env, cs: &[Vec<G>]) -> Vec<Vec<M>> {
        cs.iter().map(|c| self.clause::<M>(env, c)).collect()
    }

    /// Rows of a pattern match, as the macro builds them: per arm and per `|` alternative,
    /// `[eq(__term__, __pattern__), body...]` with the scrutinee aliased before the pattern
    /// variables are declared.
    fn match_rows<M: Mode>(self: &Rc<Self>, env: &mut Env, scrut: &T, arms: &[Arm]) -> Vec<Vec<M>> {
        let mut rows: Vec<Vec<M>> = vec![];
        for arm in arms {
            for pat in &arm.pats {
                let term = to_lterm(env, scrut);
                let pvars = pat.vars();
                let saved: Vec<(V, Option<L>)> = pvars.iter().map(|v| (*v, env.map.get(v).cloned())).collect();
                for v in &pvars {
                    env.declare(*v);
                }
                let pattern = to_lterm(env, pat);
                let mut row: Vec<M> = vec![relation::eq::<U, E, M>(term, pattern).cast_into()];
                for bg in &arm.body {
                    row.push(self.goal::<M>(env, bg));
                }
                rows.push(row);
                for (v, old) in saved {
                    match old {
                        Some(l) => {
                            env.map.insert(v, l);
                        }
                        None => {
                            env.map.remove(&v);
                        }
                    }
                }
            }
        }
        rows
    }

    /// Build the goal for `g` in search mode `M`, mirroring the macro expansion of each clause.
    pub fn goal<M: Mode>(self: &Rc<Self>, env: &mut Env, g: &G) -> M {
        let t = |env: &Env, x: &T| to_lterm(env, x);
        match g {
            G::Eq(a, b) => relation::eq::eq::<U, E, M>(t(env, a), t(env, b)).cast_into(),
            G::Diseq(a, b) => relation::diseq::diseq::<U, E, M>(t(env, a), t(env, b)).cast_into(),
            G::Succeed => relation::succeed::<U, E, M>().cast_into(),
            G::Fail => relation::fail::<U, E, M>().cast_into(),
            G::Conj(gs) => {
                let v: Vec<M> = self.clause(env, gs);
                InferredConj::from_array(&v).cast_into()
            }
            G::Conde(cs) => {
                let v: Vec<Vec<BGoal>> = self.clauses(env, cs);
                let refs: Vec<&[BGoal]> = v.iter().map(|c| &c[..]).collect();
                M::from_bfs(operator::conde(OperatorParam::new(&refs)))
            }
            G::Cond(cs) => {
                let v: Vec<Vec<M>> = self.clauses(env, cs);
                let refs: Vec<&[M]> = v.iter().map(|c| &c[..]).collect();
                operator::cond(OperatorParam::new(&refs)).cast_into()
            }
            G::Fresh(vs, gs) => {
                let saved: Vec<(V, Option<L>)> = vs.iter().map(|v| (*v, env.map.get(v).cloned())).collect();
                let vars: Vec<L> = vs.iter().map(|v| env.declare(*v)).collect();
                let body: Vec<M> = self.clause(env, gs);
                let goal: M = Fresh::new(vars, InferredConj::from_array(&body).cast_into()).cast_into();
                for (v, old) in saved {
                    match old {
                        Some(l) => {
                            env.map.insert(v, l);
                        }
                        None => {
                            env.map.remove(&v);
                        }
                    }
                }
                goal
            }
            G::Dfs(cs) => {
                let v: Vec<Vec<DGoal>> = self.clauses(env, cs);
                let refs: Vec<&[DGoal]> = v.iter().map(|c| &c[..]).collect();
                operator::dfs::<U, E, M>(OperatorParam::new(&refs)).cast_into()
            }
            G::Loop(cs) => {
                let v: Vec<Vec<BGoal>> = self.clauses(env, cs);
                let refs: Vec<&[BGoal]> = v.iter().map(|c| &c[..]).collect();
                M::from_bfs(operator::anyo(OperatorParam::new(&refs)))
            }
            G::Always => M::from_bfs(relation::always()),
            G::Never => M::from_bfs(relation::never()),
            G::Conda(cs) => {
                let v: Vec<Vec<BGoal>> = self.clauses(env, cs);
                let refs: Vec<&[BGoal]> = v.iter().map(|c| &c[..]).collect();
                M::from_bfs(operator::conda(OperatorParam::new(&refs)))
            }
            G::Condu(cs) => {
                let v: Vec<Vec<BGoal>> = self.clauses(env, cs);
                let refs: Vec<&[BGoal]> = v.iter().map(|c| &c[..]).collect();
                M::from_bfs(operator::condu(OperatorParam::new(&refs)))
            }
            G::Onceo(cs) => {
                let v: Vec<Vec<BGoal>> = self.clauses(env, cs);
                let refs: Vec<&[BGoal]> = v.iter().map(|c| &c[..]).collect();
                M::from_bfs(operator::onceo(OperatorParam::new(&refs)))
            }
            G::Project(vs, gs) => {
                // macro: clone the variables, Project::new(vec![vars], Box::new(move |projected| body))
                let vars: Vec<L> = vs.iter().map(|v| env.get(*v)).collect();
                let this = self.clone();
                let env2 = env.clone();
                let vs2 = vs.clone();
                let gs2 = gs.clone();
                // The goal is built by the REAL `project` macro (for up to three projected variables),
                // so that the macro expansion and the operator are exercised together, exactly as
                // a user gets them; the body is handed over as a Rust expression clause.
                let mk: Rc<dyn Fn(&[L]) -> M> = Rc::new(move |projected: &[L]| {
                        let mut env3 = env2.clone();
                        for (v, p) in vs2.iter().zip(projected.iter()) {
                            env3.map.insert(*v, p.clone());
                        }
                        let mut body: Vec<Vec<M>> = gs2.iter().map(|g| vec![this.goal::<M>(&mut env3, g)]).collect();
                        // M-proj: at the start and at the end of the body (the end may run much
                        // later, after the body was suspended and other states reached the same
                        // project goal) the projected terms must still denote the current value
                        // of the original variables in the state that runs the body.
                        let pairs: Vec<(L, L)> = vs2.iter().map(|v| env2.get(*v)).zip(projected.iter().cloned()).collect();
                        let mon = |site: &'static str, pairs: Vec<(L, L)>| -> M {
                            FnGoal::new::<M>(Box::new(move |_solver: &Solver<U, E>, state: St| {
                                for (orig, proj) in pairs.iter() {
                                    let a = state.smap_ref().walk_star(orig);
                                    let b = state.smap_ref().walk_star(proj);
                                    let ok = a == b;
                                    PROJ_LOG.with(|l| {
                                        let mut l = l.borrow_mut();
                                        l.0 += 1;
                                        if !ok && l.1.len() < 5 {
                                            l.1.push(format!("at body {}: projected term {} (walk* {}) but the variable's value in this state is {}", site, proj, b, a));
                                        }
                                    });
                                }
                                Stream::unit(Box::new(state))
                            }))
                            .cast_into()
                        };
                        body.insert(0, vec![mon("start", pairs.clone())]);
                        body.push(vec![mon("end", pairs)]);
                        let refs: Vec<&[M]> = body.iter().map(|c| &c[..]).collect();
                        InferredConj::from_conjunctions(&refs).cast_into()
                    });
                match vars.len() {
                    1 => {
                        let p0 = vars[0].clone();
                        let g: proto_vulcan::goal::InferredGoal<U, E, M> = proto_vulcan::proto_vulcan!(project |p0| { (mk)(&[p0.clone()]) });
                        g.cast_into()
                    }
                    2 => {
                        let p0 = vars[0].clone();
                        let p1 = vars[1].clone();
                        let g: proto_vulcan::goal::InferredGoal<U, E, M> = proto_vulcan::proto_vulcan!(project |p0, p1| { (mk)(&[p0.clone(), p1.clone()]) });
                        g.cast_into()
                    }
                    3 => {
                        let p0 = vars[0].clone();
                        let p1 = vars[1].clone();
                        let p2 = vars[2].clone();
                        let g: proto_vulcan::goal::InferredGoal<U, E, M> = proto_vulcan::proto_vulcan!(project |p0, p1, p2| { (mk)(&[p0.clone(), p1.clone(), p2.clone()]) });
                        g.cast_into()
                    }
                    n => panic!("harness: project over {} variables is not generated", n),
                }
            }
            G::For(v, kind, coll, cs) => {
                let items: Vec<L> = coll.iter().map(|x| t(env, x)).collect();
                let this = self.clone();
                let env2 = env.clone();
                let v2 = *v;
                let cs2 = cs.clone();
                let gen = Box::new(move |x: L| {
                    let mut env3 = env2.clone();
                    env3.map.insert(v2, x);
                    let body: Vec<Vec<M>> = this.clauses(&mut env3, &cs2);
                    let refs: Vec<&[M]> = body.iter().map(|c| &c[..]).collect();
                    InferredConj::from_conjunctions(&refs).cast_into()
                });
                match kind {
                    CollKind::Vec => operator::everyg(ForOperatorParam::new(items, gen)).cast_into(),
                    CollKind::List => operator::everyg(ForOperatorParam::new(LTerm::from_vec(items), gen)).cast_into(),
                }
            }
            G::Match(kind, scrut, arms) => match kind {
                MatchKind::Match => {
                    let rows: Vec<Vec<M>> = self.match_rows::<M>(env, scrut, arms);
                    let refs: Vec<&[M]> = rows.iter().map(|c| &c[..]).collect();
                    Conde::from_conjunctions(&refs).cast_into()
                }
                _ => {
                    // the operator forms take BFS goals
                    let rows: Vec<Vec<BGoal>> = self.match_rows::<BGoal>(env, scrut, arms);
                    let refs: Vec<&[BGoal]> = rows.iter().map(|c| &c[..]).collect();
                    let g = match kind {
                        MatchKind::E => operator::matche(PatternMatchOperatorParam::new(&refs)),
                        MatchKind::A => operator::matcha(PatternMatchOperatorParam::new(&refs)),
                        MatchKind::U => operator::matchu(PatternMatchOperatorParam::new(&refs)),
                        MatchKind::Match => unreachable!(),
                    };
                    M::from_bfs(g)
                }
            },
            G::Closure(gs) => {
                let this = self.clone();
                let env2 = env.clone();
                let gs2 = gs.clone();
                Closure::new(ClosureOperatorParam::new(Box::new(move || {
                    let mut env3 = env2.clone();
                    let body: Vec<M> = this.clause(&mut env3, &gs2);
                    InferredConj::from_array(&body).cast_into()
                })))
                .cast_into()
            }
            G::Call(rel, args) => {
                let a: Vec<L> = args.iter().map(|x| t(env, x)).collect();
                match rel {
                    Rel::Member => relation::member::<U, E, M>(a[0].clone(), a[1].clone()).cast_into(),
                    Rel::Member1 => relation::member1::<U, E, M>(a[0].clone(), a[1].clone()).cast_into(),
                    Rel::Append => relation::append::<U, E, M>(a[0].clone(), a[1].clone(), a[2].clone()).cast_into(),
                    Rel::Rember => relation::rember::<U, E, M>(a[0].clone(), a[1].clone(), a[2].clone()).cast_into(),
                    Rel::Permute => relation::permute::<U, E, M>(a[0].clone(), a[1].clone()).cast_into(),
                    Rel::Distinct => relation::distinct::<U, E, M>(a[0].clone()).cast_into(),
                    Rel::Cons => relation::cons::<U, E, M>(a[0].clone(), a[1].clone(), a[2].clone()).cast_into(),
                    Rel::First => relation::first::<U, E, M>(a[0].clone(), a[1].clone()).cast_into(),
                    Rel::Rest => relation::rest::<U, E, M>(a[0].clone(), a[1].clone()).cast_into(),
                    Rel::Empty => relation::empty::<U, E, M>(a[0].clone()).cast_into(),
                }
            }
            G::RecCall(k, args) => {
                // fn relk(args) -> G { proto_vulcan_closure!(body) }: body re-evaluated per solve,
                // parameters bound to the argument terms.
                let a: Vec<L> = args.iter().map(|x| t(env, x)).collect();
                let this = self.clone();
                let k = *k;
                Closure::new(ClosureOperatorParam::new(Box::new(move || {
                    let def = &this.prog.rels[k];
                    let mut env3 = Env::new();
                    for (p, l) in def.params.iter().zip(a.iter()) {
                        env3.map.insert(*p, l.clone());
                    }
                    let body: Vec<M> = this.clause(&mut env3, &def.body);
                    InferredConj::from_array(&body).cast_into()
                })))
                .cast_into()
            }
            G::InFd(x, dom) => {
                let d: Vec<isize> = dom.iter().map(|i| *i as isize).collect();
                relation::infd::<U, E, M>(t(env, x), &d[..]).cast_into()
            }
            G::InFdRange(x, lo, hi) => relation::infdrange::<U, E, M>(t(env, x), &((*lo as isize)..=(*hi as isize))).cast_into(),
            G::Ltefd(a, b) => relation::ltefd::<U, E, M>(t(env, a), t(env, b)).cast_into(),
            G::Ltfd(a, b) => relation::ltfd::<U, E, M>(t(env, a), t(env, b)).cast_into(),
            G::Plusfd(a, b, c) => relation::plusfd::<U, E, M>(t(env, a), t(env, b), t(env, c)).cast_into(),
            G::Minusfd(a, b, c) => relation::minusfd::<U, E, M>(t(env, a), t(env, b), t(env, c)).cast_into(),
            G::Timesfd(a, b, c) => relation::timesfd::<U, E, M>(t(env, a), t(env, b), t(env, c)).cast_into(),
            G::Diseqfd(a, b) => relation::diseqfd::<U, E, M>(t(env, a), t(env, b)).cast_into(),
            G::Distinctfd(a) => relation::distinctfd::<U, E, M>(t(env, a)).cast_into(),
            G::Plusz(a, b, c) => relation::plusz::<U, E, M>(t(env, a), t(env, b), t(env, c)).cast_into(),
            G::Timesz(a, b, c) => relation::timesz::<U, E, M>(t(env, a), t(env, b), t(env, c)).cast_into(),
            G::Probe(id) => {
                let id = *id;
                FnGoal::new::<M>(Box::new(move |_solver: &Solver<U, E>, mut state: St| {
                    state.user_state.tags.push(id);
                    PROBE_COUNT.with(|c| *c.borrow_mut() += 1);
                    let ok = PROBE_HOOK.with(|h| match &*h.borrow() {
                        Some(f) => f(id, &state),
                        None => true,
                    });
                    if PROBE_KEEP.with(|k| *k.borrow()) {
                        let fp = state_fingerprint(&state);
                        PROBES.with(|p| p.borrow_mut().push(ProbeRec { id, state: state.clone(), fp }));
                    }
                    if ok {
                        Stream::unit(Box::new(state))
                    } else {
                        Stream::empty()
                    }
                }))
                .cast_into()
            }
        }
    }

    /// The body conjunction of a query (macro: `Conj::from_array(&[body...])`).
    pub fn body_goal(self: &Rc<Self>, env: &mut Env) -> BGoal {
        let prog = self.prog.clone();
        let v: Vec<BGoal> = self.clause(env, &prog.body);
        Conj::from_array(&v)
    }

    /// The complete query goal exactly as `proto_vulcan_query!` builds it:
    /// `fresh(__query__) { __query__ == [q...], Conj(body), reify(__query__) }`.
    pub fn query_goal(self: &Rc<Self>, env: &mut Env) -> (Vec<L>, BGoal) {
        let prog = self.prog.clone();
        let qvars: Vec<L> = prog.qvars.iter().map(|v| env.declare(*v)).collect();
        let query: L = LTerm::var("__query__");
        let body = self.body_goal(env);
        let inner: Vec<BGoal> = vec![
            relation::eq::eq::<U, E, BGoal>(query.clone(), LTerm::from_array(&qvars)).cast_into(),
            body,
            proto_vulcan::state::reify(query.clone()),
        ];
        let goal: BGoal = Fresh::new(vec![query.clone()], InferredConj::from_array(&inner).cast_into()).cast_into();
        (qvars, goal)
    }
}
