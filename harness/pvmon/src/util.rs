//! Small self-contained utilities: PRNG, JSON writer, tiny JSON field reader.
use std::collections::BTreeMap;
use std::fmt::Write;

/// SplitMix64.
#[derive(Clone, Debug)]
pub struct Rng(pub u64);

impl Rng {
    pub fn new(seed: u64) -> Rng {
        Rng(seed)
    }
    /// Independent stream for (seed, name, index): every case is reproducible on its own.
    pub fn for_case(seed: u64, name: &str, index: u64) -> Rng {
        let mut h: u64 = seed ^ 0x9E37_79B9_7F4A_7C15;
        for b in name.bytes() {
            h = (h ^ b as u64).wrapping_mul(0x1000_0000_01B3);
        }
        let mut r = Rng(h ^ index.wrapping_mul(0xD6E8_FEB8_6659_FD93));
        r.next();
        r.next();
        r
    }
    pub fn next(&mut self) -> u64 {
        self.0 = self.0.wrapping_add(0x9E37_79B9_7F4A_7C15);
        let mut z = self.0;
        z = (z ^ (z >> 30)).wrapping_mul(0xBF58_476D_1CE4_E5B9);
        z = (z ^ (z >> 27)).wrapping_mul(0x94D0_49BB_1331_11EB);
        z ^ (z >> 31)
    }
    pub fn below(&mut self, n: usize) -> usize {
        if n == 0 {
            0
        } else {
            (self.next() % n as u64) as usize
        }
    }
    pub fn range(&mut self, lo: i64, hi: i64) -> i64 {
        lo + (self.next() % ((hi - lo + 1) as u64)) as i64
    }
    pub fn chance(&mut self, num: usize, den: usize) -> bool {
        self.below(den) < num
    }
    pub fn pick<'a, T>(&mut self, xs: &'a [T]) -> &'a T {
        &xs[self.below(xs.len())]
    }
    pub fn shuffle<T>(&mut self, xs: &mut Vec<T>) {
        for i in (1..xs.len()).rev() {
            let j = self.below(i + 1);
            xs.swap(i, j);
        }
    }
}

/// All permutations of 0..n (n small).
pub fn permutations(n: usize) -> Vec<Vec<usize>> {
    fn rec(cur: &mut Vec<usize>, used: &mut Vec<bool>, n: usize, out: &mut Vec<Vec<usize>>) {
        if cur.len() == n {
            out.push(cur.clone());
            return;
        }
        for i in 0..n {
            if !used[i] {
                used[i] = true;
                cur.push(i);
                rec(cur, used, n, out);
                cur.pop();
                used[i] = false;
            }
        }
    }
    let mut out = vec![];
    rec(&mut vec![], &mut vec![false; n], n, &mut out);
    out
}

#[derive(Clone, Debug, PartialEq)]
pub enum Json {
    Null,
    Bool(bool),
    Int(i64),
    Num(f64),
    Str(String),
    Arr(Vec<Json>),
    Obj(Vec<(String, Json)>),
}

impl Json {
    pub fn obj() -> Json {
        Json::Obj(vec![])
    }
    pub fn s<S: Into<String>>(s: S) -> Json {
        Json::Str(s.into())
    }
    pub fn set<S: Into<String>>(&mut self, k: S, v: Json) -> &mut Json {
        let k = k.into();
        if let Json::Obj(items) = self {
            if let Some(slot) = items.iter_mut().find(|(kk, _)| *kk == k) {
                slot.1 = v;
            } else {
                items.push((k, v));
            }
        }
        self
    }
    pub fn with<S: Into<String>>(mut self, k: S, v: Json) -> Json {
        self.set(k, v);
        self
    }
    pub fn get(&self, k: &str) -> Option<&Json> {
        match self {
            Json::Obj(items) => items.iter().find(|(kk, _)| kk == k).map(|(_, v)| v),
            _ => None,
        }
    }
    pub fn as_i64(&self) -> Option<i64> {
        match self {
            Json::Int(i) => Some(*i),
            Json::Num(f) => Some(*f as i64),
            _ => None,
        }
    }
    pub fn as_str(&self) -> Option<&str> {
        match self {
            Json::Str(s) => Some(s),
            _ => None,
        }
    }
    pub fn as_arr(&self) -> Option<&Vec<Json>> {
        match self {
            Json::Arr(a) => Some(a),
            _ => None,
        }
    }
    pub fn from_map(m: &BTreeMap<String, u64>) -> Json {
        Json::Obj(m.iter().map(|(k, v)| (k.clone(), Json::Int(*v as i64))).collect())
    }
    pub fn strs<I: IntoIterator<Item = String>>(it: I) -> Json {
        Json::Arr(it.into_iter().map(Json::Str).collect())
    }
    pub fn to_string(&self) -> String {
        let mut s = String::new();
        self.write(&mut s, 0, false);
        s
    }
    pub fn to_pretty(&self) -> String {
        let mut s = String::new();
        self.write(&mut s, 0, true);
        s.push('\n');
        s
    }
    fn write(&self, out: &mut String, ind: usize, pretty: bool) {
        match self {
            Json::Null => out.push_str("null"),
            Json::Bool(b) => out.push_str(if *b { "true" } else { "false" }),
            Json::Int(i) => {
                let _ = write!(out, "{}", i);
            }
            Json::Num(f) => {
                if f.is_finite() {
                    let _ = write!(out, "{:.3}", f);
                } else {
                    out.push_str("0");
                }
            }
            Json::Str(s) => write_str(out, s),
            Json::Arr(a) => {
                if a.is_empty() {
                    out.push_str("[]");
                    return;
                }
                out.push('[');
                for (i, v) in a.iter().enumerate() {
                    if i > 0 {
                        out.push(',');
                    }
                    if pretty {
                        out.push('\n');
                        out.push_str(&" ".repeat(ind + 1));
                    }
                    v.write(out, ind + 1, pretty);
                }
                if pretty {
                    out.push('\n');
                    out.push_str(&" ".repeat(ind));
                }
                out.push(']');
            }
            Json::Obj(o) => {
                if o.is_empty() {
                    out.push_str("{}");
                    return;
                }
                out.push('{');
                for (i, (k, v)) in o.iter().enumerate() {
                    if i > 0 {
                        out.push(',');
                    }
                    if pretty {
                        out.push('\n');
                        out.push_str(&" ".repeat(ind + 1));
                    }
                    write_str(out, k);
                    out.push(':');
                    if pretty {
                        out.push(' ');
                    }
                    v.write(out, ind + 1, pretty);
                }
                if pretty {
                    out.push('\n');
                    out.push_str(&" ".repeat(ind));
                }
                out.push('}');
            }
        }
    }

    /// Minimal recursive-descent parser (enough for our own files).
    pub fn parse(s: &str) -> Result<Json, String> {
        let b = s.as_bytes();
        let mut p = 0usize;
        let v = parse_value(b, &mut p)?;
        skip_ws(b, &mut p);
        if p != b.len() {
            return Err(format!("trailing data at {}", p));
        }
        Ok(v)
    }
}

fn write_str(out: &mut String, s: &str) {
    out.push('"');
    for c in s.chars() {
        match c {
            '"' => out.push_str("\\\""),
            '\\' => out.push_str("\\\\"),
            '\n' => out.push_str("\\n"),
            '\r' => out.push_str("\\r"),
            '\t' => out.push_str("\\t"),
            c if (c as u32) < 0x20 => {
                let _ = write!(out, "\\u{:04x}", c as u32);
            }
            c => out.push(c),
        }
    }
    out.push('"');
}

fn skip_ws(b: &[u8], p: &mut usize) {
    while *p < b.len() && (b[*p] == b' ' || b[*p] == b'\n' || b[*p] == b'\r' || b[*p] == b'\t') {
        *p += 1;
    }
}

fn parse_value(b: &[u8], p: &mut usize) -> Result<Json, String> {
    skip_ws(b, p);
    if *p >= b.len() {
        return Err("eof".into());
    }
    match b[*p] {
        b'{' => {
            *p += 1;
            let mut items = vec![];
            skip_ws(b, p);
            if *p < b.len() && b[*p] == b'}' {
                *p += 1;
                return Ok(Json::Obj(items));
            }
            loop {
                skip_ws(b, p);
                let k = match parse_value(b, p)? {
                    Json::Str(s) => s,
                    _ => return Err("key".into()),
                };
                skip_ws(b, p);
                if *p >= b.len() || b[*p] != b':' {
                    return Err("colon".into());
                }
                *p += 1;
                let v = parse_value(b, p)?;
                items.push((k, v));
                skip_ws(b, p);
                if *p < b.len() && b[*p] == b',' {
                    *p += 1;
                    continue;
                }
                if *p < b.len() && b[*p] == b'}' {
                    *p += 1;
                    return Ok(Json::Obj(items));
                }
                return Err("obj".into());
            }
        }
        b'[' => {
            *p += 1;
            let mut items = vec![];
            skip_ws(b, p);
            if *p < b.len() && b[*p] == b']' {
                *p += 1;
                return Ok(Json::Arr(items));
            }
            loop {
                let v = parse_value(b, p)?;
                items.push(v);
                skip_ws(b, p);
                if *p < b.len() && b[*p] == b',' {
                    *p += 1;
                    continue;
                }
                if *p < b.len() && b[*p] == b']' {
                    *p += 1;
                    return Ok(Json::Arr(items));
                }
                return Err("arr".into());
            }
        }
        b'"' => {
            *p += 1;
            let mut s = String::new();
            let mut bytes: Vec<u8> = vec![];
            while *p < b.len() && b[*p] != b'"' {
                if b[*p] == b'\\' {
                    *p += 1;
                    if *p >= b.len() {
                        return Err("esc".into());
                    }
                    match b[*p] {
                        b'n' => bytes.push(b'\n'),
                        b'r' => bytes.push(b'\r'),
                        b't' => bytes.push(b'\t'),
                        b'u' => {
                            let hex = std::str::from_utf8(&b[*p + 1..*p + 5]).map_err(|_| "u")?;
                            let cp = u32::from_str_radix(hex, 16).map_err(|_| "u")?;
                            let c = std::char::from_u32(cp).unwrap_or('?');
                            let mut buf = [0u8; 4];
                            bytes.extend_from_slice(c.encode_utf8(&mut buf).as_bytes());
                            *p += 4;
                        }
                        c => bytes.push(c),
                    }
                } else {
                    bytes.push(b[*p]);
                }
                *p += 1;
            }
            *p += 1;
            s.push_str(&String::from_utf8_lossy(&bytes));
            Ok(Json::Str(s))
        }
        b't' => {
            *p += 4;
            Ok(Json::Bool(true))
        }
        b'f' => {
            *p += 5;
            Ok(Json::Bool(false))
        }
        b'n' => {
            *p += 4;
            Ok(Json::Null)
        }
        _ => {
            let st = *p;
            while *p < b.len() && (b[*p] == b'-' || b[*p] == b'+' || b[*p] == b'.' || b[*p] == b'e' || b[*p] == b'E' || b[*p].is_ascii_digit()) {
                *p += 1;
            }
            let t = std::str::from_utf8(&b[st..*p]).map_err(|_| "num")?;
            if let Ok(i) = t.parse::<i64>() {
                Ok(Json::Int(i))
            } else {
                t.parse::<f64>().map(Json::Num).map_err(|_| format!("num {:?} at {}", t, st))
            }
        }
    }
}

/// Histogram helper.
pub fn bump(m: &mut BTreeMap<String, u64>, k: &str) {
    *m.entry(k.to_string()).or_insert(0) += 1;
}
pub fn bump_by(m: &mut BTreeMap<String, u64>, k: &str, n: u64) {
    *m.entry(k.to_string()).or_insert(0) += n;
}

/// FNV-1a over a string, for cheap distinct counting.
pub fn fnv(s: &str) -> u64 {
    let mut h: u64 = 0xcbf29ce484222325;
    for b in s.bytes() {
        h = (h ^ b as u64).wrapping_mul(0x100000001b3);
    }
    h
}
