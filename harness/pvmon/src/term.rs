//! The harness's own first-order term type, independent of proto-vulcan's `LTerm`.
use std::collections::{BTreeMap, BTreeSet};
use std::fmt;
use std::rc::Rc;

pub type V = u32;

#[derive(Clone, PartialEq, Eq, Hash, PartialOrd, Ord, Debug)]
pub enum T {
    Int(i64),
    Bool(bool),
    Char(char),
    Str(String),
    Var(V),
    /// Anonymous variable `_` (each occurrence is a distinct fresh variable).
    Any,
    Nil,
    Cons(Rc<T>, Rc<T>),
    /// Compound term: type name and fields. Names used by the harness:
    /// "Pair"/2, "Triple"/3, "Named"/2 (named fields a, b), "" /2 (Rust tuple), "Some"/1.
    Comp(&'static str, Vec<T>),
}

impl T {
    pub fn cons(h: T, t: T) -> T {
        T::Cons(Rc::new(h), Rc::new(t))
    }
    pub fn list(items: Vec<T>) -> T {
        let mut c = T::Nil;
        for t in items.into_iter().rev() {
            c = T::cons(t, c);
        }
        c
    }
    /// `[a, b | tail]`
    pub fn improper(items: Vec<T>, tail: T) -> T {
        let mut c = tail;
        for t in items.into_iter().rev() {
            c = T::cons(t, c);
        }
        c
    }
    pub fn s(x: &str) -> T {
        T::Str(x.to_string())
    }
    pub fn pair(a: T, b: T) -> T {
        T::Comp("Pair", vec![a, b])
    }
    pub fn is_var(&self) -> bool {
        matches!(self, T::Var(_))
    }
    pub fn is_atom(&self) -> bool {
        matches!(self, T::Int(_) | T::Bool(_) | T::Char(_) | T::Str(_))
    }
    pub fn as_int(&self) -> Option<i64> {
        match self {
            T::Int(i) => Some(*i),
            _ => None,
        }
    }
    /// Split a cons chain into its elements and its final tail.
    pub fn unroll(&self) -> (Vec<&T>, &T) {
        let mut items = vec![];
        let mut cur = self;
        while let T::Cons(h, t) = cur {
            items.push(&**h);
            cur = &**t;
        }
        (items, cur)
    }
    pub fn vars_into(&self, out: &mut Vec<V>) {
        match self {
            T::Var(v) => {
                if !out.contains(v) {
                    out.push(*v)
                }
            }
            T::Cons(h, t) => {
                h.vars_into(out);
                t.vars_into(out);
            }
            T::Comp(_, fs) => {
                for f in fs {
                    f.vars_into(out)
                }
            }
            _ => {}
        }
    }
    /// Variables in first-occurrence order.
    pub fn vars(&self) -> Vec<V> {
        let mut v = vec![];
        self.vars_into(&mut v);
        v
    }
    pub fn is_ground(&self) -> bool {
        match self {
            T::Var(_) | T::Any => false,
            T::Cons(h, t) => h.is_ground() && t.is_ground(),
            T::Comp(_, fs) => fs.iter().all(|f| f.is_ground()),
            _ => true,
        }
    }
    pub fn has_any(&self) -> bool {
        match self {
            T::Any => true,
            T::Cons(h, t) => h.has_any() || t.has_any(),
            T::Comp(_, fs) => fs.iter().any(|f| f.has_any()),
            _ => false,
        }
    }
    pub fn depth(&self) -> usize {
        match self {
            T::Cons(h, t) => 1 + h.depth().max(t.depth()),
            T::Comp(_, fs) => 1 + fs.iter().map(|f| f.depth()).max().unwrap_or(0),
            _ => 0,
        }
    }
    pub fn size(&self) -> usize {
        match self {
            T::Cons(h, t) => 1 + h.size() + t.size(),
            T::Comp(_, fs) => 1 + fs.iter().map(|f| f.size()).sum::<usize>(),
            _ => 1,
        }
    }
    pub fn atoms_into(&self, out: &mut BTreeSet<T>) {
        match self {
            T::Cons(h, t) => {
                h.atoms_into(out);
                t.atoms_into(out);
            }
            T::Comp(_, fs) => {
                for f in fs {
                    f.atoms_into(out)
                }
            }
            t if t.is_atom() => {
                out.insert(t.clone());
            }
            _ => {}
        }
    }
    pub fn comps_into(&self, out: &mut BTreeSet<(&'static str, usize)>) {
        match self {
            T::Cons(h, t) => {
                h.comps_into(out);
                t.comps_into(out);
            }
            T::Comp(n, fs) => {
                out.insert((n, fs.len()));
                for f in fs {
                    f.comps_into(out)
                }
            }
            _ => {}
        }
    }
    /// Apply a variable mapping (total on the variables that occur, others unchanged).
    pub fn map_vars(&self, f: &dyn Fn(V) -> T) -> T {
        match self {
            T::Var(v) => f(*v),
            T::Cons(h, t) => T::cons(h.map_vars(f), t.map_vars(f)),
            T::Comp(n, fs) => T::Comp(n, fs.iter().map(|x| x.map_vars(f)).collect()),
            t => t.clone(),
        }
    }
    /// Rebuild the term, mapping every leaf (anything that is not a cons cell or a compound).
    pub fn map_leaves(&self, f: &mut dyn FnMut(&T) -> T) -> T {
        match self {
            T::Cons(h, t) => {
                let h2 = h.map_leaves(f);
                let t2 = t.map_leaves(f);
                T::cons(h2, t2)
            }
            T::Comp(n, fs) => T::Comp(n, fs.iter().map(|x| x.map_leaves(f)).collect()),
            t => f(t),
        }
    }
    pub fn subst(&self, m: &BTreeMap<V, T>) -> T {
        self.map_vars(&|v| m.get(&v).cloned().unwrap_or(T::Var(v)))
    }
    /// Rename variables in first-occurrence order to 0,1,2,... using and extending `map`.
    pub fn rename_with(&self, map: &mut BTreeMap<V, V>) -> T {
        match self {
            T::Var(v) => {
                let n = map.len() as V;
                T::Var(*map.entry(*v).or_insert(n))
            }
            T::Cons(h, t) => {
                let h2 = h.rename_with(map);
                let t2 = t.rename_with(map);
                T::cons(h2, t2)
            }
            T::Comp(n, fs) => T::Comp(n, fs.iter().map(|x| x.rename_with(map)).collect()),
            t => t.clone(),
        }
    }
    /// C20 twin encoding: every structure becomes a list with a constant tag in head position,
    /// `T(a,b)` -> `["#T", a, b]`, `[h | t]` -> `["#.", h, t]`, `[]` -> `"#nil"`. Because no
    /// variable ever sits in head position and every tag has a fixed length, two encoded terms
    /// unify exactly when the original terms do (the encoding is a homomorphism).
    pub fn tagged(&self) -> T {
        match self {
            T::Nil => T::s("#nil"),
            T::Cons(h, t) => T::list(vec![T::s("#."), h.tagged(), t.tagged()]),
            T::Comp(n, fs) => {
                let mut items = vec![T::Str(format!("#{}", n))];
                items.extend(fs.iter().map(|f| f.tagged()));
                T::list(items)
            }
            t => t.clone(),
        }
    }
}

impl fmt::Display for T {
    fn fmt(&self, f: &mut fmt::Formatter) -> fmt::Result {
        match self {
            T::Int(i) => write!(f, "{}", i),
            T::Bool(b) => write!(f, "{}", b),
            T::Char(c) => write!(f, "{:?}", c),
            T::Str(s) => write!(f, "{:?}", s),
            T::Var(v) => write!(f, "v{}", v),
            T::Any => write!(f, "_"),
            T::Nil => write!(f, "[]"),
            T::Cons(_, _) => {
                let (items, tail) = self.unroll();
                write!(f, "[")?;
                for (i, it) in items.iter().enumerate() {
                    if i > 0 {
                        write!(f, ", ")?;
                    }
                    write!(f, "{}", it)?;
                }
                if *tail != T::Nil {
                    write!(f, " | {}", tail)?;
                }
                write!(f, "]")
            }
            T::Comp(n, fs) => {
                if *n == "Named" && fs.len() == 2 {
                    return write!(f, "Named {{ a: {}, b: {} }}", fs[0], fs[1]);
                }
                write!(f, "{}(", n)?;
                for (i, it) in fs.iter().enumerate() {
                    if i > 0 {
                        write!(f, ", ")?;
                    }
                    write!(f, "{}", it)?;
                }
                write!(f, ")")
            }
        }
    }
}

/// Triangular substitution with textbook Robinson unification (reference model).
#[derive(Clone, Debug, Default)]
pub struct Subst {
    pub map: BTreeMap<V, T>,
}

impl Subst {
    pub fn new() -> Subst {
        Subst { map: BTreeMap::new() }
    }
    pub fn walk<'a>(&'a self, mut t: &'a T) -> &'a T {
        loop {
            match t {
                T::Var(v) => match self.map.get(v) {
                    Some(n) => t = n,
                    None => return t,
                },
                _ => return t,
            }
        }
    }
    pub fn walk_star(&self, t: &T) -> T {
        let w = self.walk(t);
        match w {
            T::Cons(h, tl) => T::cons(self.walk_star(h), self.walk_star(tl)),
            T::Comp(n, fs) => T::Comp(n, fs.iter().map(|f| self.walk_star(f)).collect()),
            _ => w.clone(),
        }
    }
    pub fn occurs(&self, v: V, t: &T) -> bool {
        match self.walk(t) {
            T::Var(w) => *w == v,
            T::Cons(h, tl) => self.occurs(v, h) || self.occurs(v, tl),
            T::Comp(_, fs) => fs.iter().any(|f| self.occurs(v, f)),
            _ => false,
        }
    }
    /// Unify, recording new bindings in `ext`. Returns false on failure (self may be partially
    /// extended; callers clone first).
    pub fn unify(&mut self, a: &T, b: &T, ext: &mut Vec<(V, T)>) -> bool {
        let a = self.walk(a).clone();
        let b = self.walk(b).clone();
        match (&a, &b) {
            (T::Var(x), T::Var(y)) if x == y => true,
            (T::Var(x), _) => {
                if self.occurs(*x, &b) {
                    false
                } else {
                    self.map.insert(*x, b.clone());
                    ext.push((*x, b));
                    true
                }
            }
            (_, T::Var(y)) => {
                if self.occurs(*y, &a) {
                    false
                } else {
                    self.map.insert(*y, a.clone());
                    ext.push((*y, a));
                    true
                }
            }
            (T::Nil, T::Nil) => true,
            (T::Cons(h1, t1), T::Cons(h2, t2)) => self.unify(h1, h2, ext) && self.unify(t1, t2, ext),
            (T::Comp(n1, f1), T::Comp(n2, f2)) => {
                if n1 != n2 || f1.len() != f2.len() {
                    return false;
                }
                for (x, y) in f1.iter().zip(f2.iter()) {
                    if !self.unify(x, y, ext) {
                        return false;
                    }
                }
                true
            }
            (x, y) if x.is_atom() && y.is_atom() => x == y,
            _ => false,
        }
    }
}

/// One-sided matching: is `inst` an instance of `pat` (pattern variables bound consistently)?
pub fn match_term(pat: &T, inst: &T, b: &mut BTreeMap<V, T>) -> bool {
    match (pat, inst) {
        (T::Var(v), _) => match b.get(v) {
            Some(prev) => prev == inst,
            None => {
                b.insert(*v, inst.clone());
                true
            }
        },
        (T::Nil, T::Nil) => true,
        (T::Cons(h1, t1), T::Cons(h2, t2)) => match_term(h1, h2, b) && match_term(t1, t2, b),
        (T::Comp(n1, f1), T::Comp(n2, f2)) => n1 == n2 && f1.len() == f2.len() && f1.iter().zip(f2.iter()).all(|(x, y)| match_term(x, y, b)),
        (x, y) if x.is_atom() => x == y,
        _ => false,
    }
}

/// Are two terms variants of each other (equal up to a bijective renaming of variables)?
pub fn variants(a: &T, b: &T) -> bool {
    let mut m1 = BTreeMap::new();
    let mut m2 = BTreeMap::new();
    a.rename_with(&mut m1) == b.rename_with(&mut m2)
}
