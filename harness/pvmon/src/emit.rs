//! Surface path: AST -> Rust source text using proto-vulcan's macros, and the parser for the
//! answer lines the generated binary prints.
use crate::ast::*;
use crate::canon::Ans;
use crate::term::{T, V};
use std::collections::{BTreeMap, BTreeSet};

#[derive(Clone, Copy, PartialEq, Eq, Debug)]
pub enum Naming {
    /// every variable gets its own name `v<id>`
    Distinct,
    /// reuse names as much as scoping allows (shadowing at every level)
    Clash,
}

const POOL: [&str; 12] = ["x", "y", "z", "w", "a", "b", "c", "l", "t", "h", "r", "s"];

/// Free variables of a goal (uses that are not bound inside the goal itself).
pub fn free_vars(g: &G, out: &mut BTreeSet<V>) {
    let mut terms = |ts: &[&T], out: &mut BTreeSet<V>| {
        for t in ts {
            for v in t.vars() {
                out.insert(v);
            }
        }
    };
    match g {
        G::Fresh(vs, gs) => {
            let mut inner = BTreeSet::new();
            for x in gs {
                free_vars(x, &mut inner);
            }
            for v in vs {
                inner.remove(v);
            }
            out.extend(inner);
        }
        G::For(v, _, coll, cs) => {
            terms(&coll.iter().collect::<Vec<_>>(), out);
            let mut inner = BTreeSet::new();
            for c in cs {
                for x in c {
                    free_vars(x, &mut inner);
                }
            }
            inner.remove(v);
            out.extend(inner);
        }
        G::Match(_, s, arms) => {
            terms(&[s], out);
            for a in arms {
                let mut inner = BTreeSet::new();
                for x in &a.body {
                    free_vars(x, &mut inner);
                }
                for p in &a.pats {
                    for v in p.vars() {
                        inner.remove(&v);
                    }
                }
                out.extend(inner);
            }
        }
        G::Project(vs, gs) => {
            for v in vs {
                out.insert(*v);
            }
            for x in gs {
                free_vars(x, out);
            }
        }
        other => {
            terms(&other.terms(), out);
            for c in other.clauses() {
                for x in c {
                    free_vars(x, out);
                }
            }
        }
    }
}

pub struct Emitter {
    pub naming: Naming,
    pub prefix: String,
    /// `let` statements to place before the query (for `{expr}` arguments and `for` collections)
    pub lets: Vec<String>,
    nlets: usize,
    /// `{expr}` arguments need a `let` in scope; not available inside relation definitions
    allow_lets: bool,
    /// probability knobs, driven by a tiny LCG so that emission is deterministic
    state: u64,
}

type Names = BTreeMap<V, String>;

impl Emitter {
    pub fn new(naming: Naming, prefix: &str, seed: u64) -> Emitter {
        Emitter { naming, prefix: prefix.to_string(), lets: vec![], nlets: 0, allow_lets: true, state: seed | 1 }
    }

    fn coin(&mut self, num: u64, den: u64) -> bool {
        self.state = self.state.wrapping_mul(6364136223846793005).wrapping_add(1442695040888963407);
        (self.state >> 33) % den < num
    }

    fn pick_names(&self, vs: &[V], avoid_ids: &BTreeSet<V>, names: &Names) -> Vec<String> {
        match self.naming {
            Naming::Distinct => vs.iter().map(|v| format!("v{}", v)).collect(),
            Naming::Clash => {
                let avoid: BTreeSet<&str> = avoid_ids.iter().filter_map(|i| names.get(i).map(|s| s.as_str())).collect();
                let mut used: BTreeSet<String> = BTreeSet::new();
                let mut out = vec![];
                for _ in vs {
                    let mut n = None;
                    for p in POOL.iter() {
                        if !avoid.contains(p) && !used.contains(*p) {
                            n = Some(p.to_string());
                            break;
                        }
                    }
                    let n = n.unwrap_or_else(|| format!("u{}", used.len() + avoid.len()));
                    used.insert(n.clone());
                    out.push(n);
                }
                out
            }
        }
    }

    pub fn term(&self, t: &T, names: &Names) -> String {
        match t {
            T::Int(i) => format!("{}", i),
            T::Bool(b) => format!("{}", b),
            T::Char(c) => format!("{:?}", c),
            T::Str(s) => format!("{:?}", s),
            T::Var(v) => names.get(v).cloned().unwrap_or_else(|| format!("UNBOUND_v{}", v)),
            T::Any => "_".to_string(),
            T::Nil => "[]".to_string(),
            T::Cons(..) => {
                let (items, tail) = t.unroll();
                // The same term can be written with a list literal in rest position:
                // [a, b, c] = [a | [b, c]] = [a, b | [c]] = [a, b, c | []]. A quarter of the lists
                // (chosen by a hash of the term, so emission stays deterministic) are split so.
                let h = crate::util::fnv(&format!("{}#{}", t, self.state));
                if h % 4 == 0 && !items.is_empty() {
                    let k = 1 + ((h / 4) as usize) % items.len();
                    let head: Vec<String> = items[..k].iter().map(|i| self.term(i, names)).collect();
                    let rest = T::improper(items[k..].iter().map(|i| (*i).clone()).collect(), tail.clone());
                    let rest_txt = match &rest {
                        T::Nil => "[]".to_string(),
                        T::Cons(..) => self.term_plain_list(&rest, names),
                        other => self.term(other, names),
                    };
                    return format!("[{} | {}]", head.join(", "), rest_txt);
                }
                self.term_plain_list(t, names)
            }
            T::Comp(n, fs) => {
                let parts: Vec<String> = fs.iter().map(|i| self.term(i, names)).collect();
                match (*n, fs.len()) {
                    ("Named", 2) => format!("Named {{ a: {}, b: {} }}", parts[0], parts[1]),
                    ("", _) => format!("({})", parts.join(", ")),
                    _ => format!("{}({})", n, parts.join(", ")),
                }
            }
        }
    }

    fn term_plain_list(&self, t: &T, names: &Names) -> String {
        let (items, tail) = t.unroll();
        let parts: Vec<String> = items.iter().map(|i| self.term(i, names)).collect();
        if *tail == T::Nil {
            format!("[{}]", parts.join(", "))
        } else {
            format!("[{} | {}]", parts.join(", "), self.term(tail, names))
        }
    }

    /// A relation argument: ground lists are sometimes passed as `{expr}` with a prior `let`.
    fn arg(&mut self, t: &T, names: &Names) -> String {
        if self.allow_lets && t.is_ground() && !t.has_any() && matches!(t, T::Cons(..)) && self.coin(1, 3) {
            let name = format!("{}_e{}", self.prefix, self.nlets);
            self.nlets += 1;
            self.lets.push(format!("let {}: LTerm = lterm!({});", name, self.term(t, names)));
            format!("{{{}.clone()}}", name)
        } else {
            self.term(t, names)
        }
    }

    fn clause(&mut self, c: &[G], names: &Names) -> String {
        if c.len() == 1 && !matches!(c[0], G::Conj(_)) {
            self.goal(&c[0], names)
        } else {
            format!("[{}]", c.iter().map(|g| self.goal(g, names)).collect::<Vec<_>>().join(", "))
        }
    }

    fn clauses(&mut self, cs: &[Vec<G>], names: &Names) -> String {
        cs.iter().map(|c| self.clause(c, names)).collect::<Vec<_>>().join(", ")
    }

    fn goals(&mut self, gs: &[G], names: &Names) -> String {
        gs.iter().map(|g| self.goal(g, names)).collect::<Vec<_>>().join(", ")
    }

    pub fn goal(&mut self, g: &G, names: &Names) -> String {
        match g {
            G::Eq(a, b) => format!("{} == {}", self.term(a, names), self.term(b, names)),
            G::Diseq(a, b) => format!("{} != {}", self.term(a, names), self.term(b, names)),
            G::Succeed => "true".into(),
            G::Fail => "false".into(),
            G::Conj(gs) => format!("[{}]", self.goals(gs, names)),
            G::Conde(cs) => format!("conde {{ {} }}", self.clauses(cs, names)),
            G::Cond(cs) => format!("cond {{ {} }}", self.clauses(cs, names)),
            G::Dfs(cs) => format!("dfs {{ {} }}", self.clauses(cs, names)),
            G::Loop(cs) => format!("loop {{ {} }}", self.clauses(cs, names)),
            G::Conda(cs) => format!("conda {{ {} }}", self.clauses(cs, names)),
            G::Condu(cs) => format!("condu {{ {} }}", self.clauses(cs, names)),
            G::Onceo(cs) => format!("onceo {{ {} }}", self.clauses(cs, names)),
            G::Always => "always()".into(),
            G::Never => "never()".into(),
            G::Closure(gs) => format!("closure {{ {} }}", self.goals(gs, names)),
            G::Fresh(vs, gs) => {
                let mut fv = BTreeSet::new();
                for x in gs {
                    free_vars(x, &mut fv);
                }
                for v in vs {
                    fv.remove(v);
                }
                let ns = self.pick_names(vs, &fv, names);
                let mut inner = names.clone();
                for (v, n) in vs.iter().zip(ns.iter()) {
                    inner.insert(*v, n.clone());
                }
                format!("|{}| {{ {} }}", ns.join(", "), self.goals(gs, &inner))
            }
            G::Project(vs, gs) => {
                let ns: Vec<String> = vs.iter().map(|v| names.get(v).cloned().unwrap_or_default()).collect();
                format!("project |{}| {{ {} }}", ns.join(", "), self.goals(gs, names))
            }
            G::For(v, kind, coll, cs) => {
                let items: Vec<String> = coll.iter().map(|t| self.term(t, names)).collect();
                // a ground collection is a Rust value built before the query; one that mentions logic
                // variables of the enclosing scope is written in place, as an expression
                let cname = if coll.iter().all(|t| t.is_ground() && !t.has_any()) {
                    let cname = format!("{}_c{}", self.prefix, self.nlets);
                    self.nlets += 1;
                    match kind {
                        CollKind::List => self.lets.push(format!("let {}: LTerm = lterm!([{}]);", cname, items.join(", "))),
                        CollKind::Vec => self.lets.push(format!("let {}: Vec<LTerm> = vec![{}];", cname, items.iter().map(|i| format!("lterm!({})", i)).collect::<Vec<_>>().join(", "))),
                    }
                    cname
                } else {
                    match kind {
                        CollKind::List => format!("lterm!([{}])", items.join(", ")),
                        CollKind::Vec => format!("vec![{}]", items.iter().map(|i| format!("lterm!({})", i)).collect::<Vec<_>>().join(", ")),
                    }
                };
                let mut fv = BTreeSet::new();
                for c in cs {
                    for x in c {
                        free_vars(x, &mut fv);
                    }
                }
                fv.remove(v);
                let n = self.pick_names(&[*v], &fv, names).remove(0);
                let mut inner = names.clone();
                inner.insert(*v, n.clone());
                // the body closure of `for` is boxed as 'static without `move`: nothing from the
                // enclosing Rust scope may be borrowed inside it, so no `{expr}` arguments there
                let saved = self.allow_lets;
                self.allow_lets = false;
                let body = self.clauses(cs, &inner);
                self.allow_lets = saved;
                format!("for {} in &{} {{ {} }}", n, cname, body)
            }
            G::Match(kind, s, arms) => {
                let mut out = vec![];
                for a in arms {
                    let pvs: Vec<V> = {
                        let mut seen = vec![];
                        for p in &a.pats {
                            for v in p.vars() {
                                if !seen.contains(&v) {
                                    seen.push(v);
                                }
                            }
                        }
                        seen
                    };
                    let mut fv = BTreeSet::new();
                    for x in &a.body {
                        free_vars(x, &mut fv);
                    }
                    for v in &pvs {
                        fv.remove(v);
                    }
                    // names of outer variables used by the body must stay visible; names used only
                    // by the scrutinee may be shadowed by pattern variables
                    let ns = self.pick_names(&pvs, &fv, names);
                    let mut inner = names.clone();
                    for (v, n) in pvs.iter().zip(ns.iter()) {
                        inner.insert(*v, n.clone());
                    }
                    let pats: Vec<String> = a.pats.iter().map(|p| self.term(p, &inner)).collect();
                    let body = match a.body.len() {
                        0 => String::new(),
                        1 if !matches!(a.body[0], G::Conj(_)) && self.coin(1, 2) => format!(" {}", self.goal(&a.body[0], &inner)),
                        _ => format!(" {{ {} }}", self.goals(&a.body, &inner)),
                    };
                    out.push(format!("{} =>{}", pats.join(" | "), body));
                }
                // every arm is terminated by a comma (an empty body is written `pattern => ,`)
                format!("{} {} {{ {}, }}", kind.name(), self.term(s, names), out.join(", "))
            }
            G::Call(r, ts) => {
                let args: Vec<String> = ts.iter().map(|t| self.arg(t, names)).collect();
                format!("{}({})", r.name(), args.join(", "))
            }
            G::RecCall(k, ts) => {
                let args: Vec<String> = ts.iter().map(|t| self.term(t, names)).collect();
                format!("{}_rel{}({})", self.prefix, k, args.join(", "))
            }
            G::InFd(..) | G::InFdRange(..) | G::Ltefd(..) | G::Ltfd(..) | G::Plusfd(..) | G::Minusfd(..) | G::Timesfd(..) | G::Diseqfd(..) | G::Distinctfd(..) | G::Plusz(..) | G::Timesz(..) | G::Probe(_) => "UNSUPPORTED_IN_SURFACE_LANE".into(),
        }
    }

    /// A whole program as a Rust function `fn <prefix>() -> (Vec<String>, bool)`.
    pub fn program(&mut self, p: &Program, max_answers: usize, budget: u64) -> String {
        let mut src = String::new();
        // relations
        self.allow_lets = false;
        for (k, r) in p.rels.iter().enumerate() {
            let names0 = Names::new();
            let mut fv = BTreeSet::new();
            for x in &r.body {
                free_vars(x, &mut fv);
            }
            let pn = self.pick_names(&r.params, &BTreeSet::new(), &names0);
            let mut names = Names::new();
            for (v, n) in r.params.iter().zip(pn.iter()) {
                names.insert(*v, n.clone());
            }
            let params: Vec<String> = pn.iter().map(|n| format!("{}: LTerm<U, E>", n)).collect();
            let body = if r.body.len() == 1 { self.goal(&r.body[0], &names) } else { format!("[{}]", self.goals(&r.body, &names)) };
            src.push_str(&format!(
                "#[allow(dead_code, unused_variables)]\nfn {}_rel{}<U: User, E: Engine<U>, G: AnyGoal<U, E>>({}) -> InferredGoal<U, E, G> {{\n    proto_vulcan_closure!({})\n}}\n",
                self.prefix,
                k,
                params.join(", "),
                body
            ));
        }
        self.allow_lets = true;
        let qn = self.pick_names(&p.qvars, &BTreeSet::new(), &Names::new());
        let mut names = Names::new();
        for (v, n) in p.qvars.iter().zip(qn.iter()) {
            names.insert(*v, n.clone());
        }
        let body = self.goals(&p.body, &names);
        let fields: Vec<String> = qn.iter().map(|n| format!("(\"{}\", &r.{})", n, n)).collect();
        src.push_str(&format!(
            "#[allow(unused_variables, unused_mut)]\npub fn {}() -> (Vec<String>, bool) {{\n    {}\n    let query = proto_vulcan_query!(|{}| {{ {} }});\n    let mut out = vec![];\n    let mut it = query.run();\n    proto_vulcan::verif::reset({});\n    while let Some(r) = it.next() {{\n        out.push(helper::fmt_answer(&[{}], &format!(\"{{}}\", r)));\n        if out.len() >= {} {{ return (out, false); }}\n    }}\n    let fused = it.next().is_none() && it.next().is_none();\n    if !fused {{ out.push(\"NOTFUSED\".to_string()); }}\n    (out, true)\n}}\n",
            self.prefix,
            self.lets.join("\n    "),
            qn.join(", "),
            body,
            budget,
            fields.join(", "),
            max_answers
        ));
        src
    }
}

/// Fixed helper module of the generated crate: serialisation of answers.
pub const HELPER_RS: &str = r##"
use proto_vulcan::prelude::*;
use proto_vulcan::lterm::LTermInner;
use proto_vulcan::lvalue::LValue;
use proto_vulcan::compound::CompoundObject;
use proto_vulcan::lresult::LResult;
use proto_vulcan::relation::diseq::DisequalityConstraint;
pub type L = LTerm<DefaultUser, DefaultEngine<DefaultUser>>;
type R = LResult<DefaultUser, DefaultEngine<DefaultUser>>;

fn hex(s: &str) -> String { s.bytes().map(|b| format!("{:02x}", b)).collect::<Vec<_>>().join("") }

pub fn ser(t: &L, out: &mut String) {
    match t.as_ref() {
        LTermInner::Val(LValue::Number(n)) => out.push_str(&format!("(i {})", n)),
        LTermInner::Val(LValue::Bool(b)) => out.push_str(&format!("(b {})", b)),
        LTermInner::Val(LValue::Char(c)) => out.push_str(&format!("(c {})", *c as u32)),
        LTermInner::Val(LValue::String(s)) => out.push_str(&format!("(s x{})", hex(s))),
        LTermInner::Var(id, name) => out.push_str(&format!("(v {} x{})", id, hex(name))),
        LTermInner::User(_) => out.push_str("(u)"),
        LTermInner::Empty => out.push_str("nil"),
        LTermInner::Cons(h, tl) => { out.push_str("(k "); ser(h, out); out.push(' '); ser(tl, out); out.push(')'); }
        LTermInner::Projection(p) => { out.push_str("(o x50726f6a "); ser(p, out); out.push(')'); }
        LTermInner::Compound(o) => ser_obj(o.as_ref(), out),
    }
}

fn ser_obj(o: &dyn CompoundObject<DefaultUser, DefaultEngine<DefaultUser>>, out: &mut String) {
    out.push_str(&format!("(o x{}", hex(o.type_name())));
    for c in o.children() {
        out.push(' ');
        match c.as_term() { Some(t) => ser(t, out), None => ser_obj(c, out) }
    }
    out.push(')');
}

pub fn fmt_answer(fields: &[(&str, &R)], display: &str) -> String {
    let mut s = String::from("T");
    for (_, r) in fields { s.push(' '); ser(&r.0, &mut s); }
    s.push_str(" | C");
    if let Some((_, first)) = fields.first() {
        for c in first.1.iter() {
            if let Some(tree) = c.downcast_ref::<DisequalityConstraint<DefaultUser, DefaultEngine<DefaultUser>>>() {
                s.push_str(" (d");
                for (k, v) in tree.smap_ref().iter() { s.push_str(" (p "); ser(k, &mut s); s.push(' '); ser(v, &mut s); s.push(')'); }
                s.push(')');
            }
        }
    }
    // order of the names in the Display of the result struct
    let mut order = vec![];
    for line in display.lines() {
        if let Some(pos) = line.find(':') { let n = line[..pos].trim(); if fields.iter().any(|(f, _)| *f == n) { order.push(n.to_string()); } }
    }
    s.push_str(&format!(" | D {}", order.join(",")));
    s.push_str(&format!(" | N {}", fields.iter().map(|(f, _)| f.to_string()).collect::<Vec<_>>().join(",")));
    s
}

pub fn run_one(id: &str, f: fn() -> (Vec<String>, bool)) {
    let r = std::panic::catch_unwind(f);
    proto_vulcan::verif::reset(u64::MAX);
    match r {
        Ok((answers, ended)) => {
            for a in answers { println!("ANS {} {}", id, a); }
            println!("END {} {}", id, if ended { "ended" } else { "capped" });
        }
        Err(e) => {
            if e.is::<proto_vulcan::verif::StepBudgetExceeded>() { println!("END {} budget", id); }
            else {
                let msg = e.downcast_ref::<String>().cloned().or(e.downcast_ref::<&str>().map(|s| s.to_string())).unwrap_or_default();
                println!("END {} panic x{}", id, hex(&msg));
            }
        }
    }
}
"##;

// ---------------------------------------------------------------------------------------------
// parsing the answer lines

fn unhex(s: &str) -> String {
    let s = s.strip_prefix('x').unwrap_or(s);
    let bytes: Vec<u8> = (0..s.len() / 2).filter_map(|i| u8::from_str_radix(&s[2 * i..2 * i + 2], 16).ok()).collect();
    String::from_utf8_lossy(&bytes).to_string()
}

fn tokenize(s: &str) -> Vec<String> {
    let mut out = vec![];
    let mut cur = String::new();
    for ch in s.chars() {
        match ch {
            '(' | ')' => {
                if !cur.is_empty() {
                    out.push(std::mem::take(&mut cur));
                }
                out.push(ch.to_string());
            }
            c if c.is_whitespace() => {
                if !cur.is_empty() {
                    out.push(std::mem::take(&mut cur));
                }
            }
            c => cur.push(c),
        }
    }
    if !cur.is_empty() {
        out.push(cur);
    }
    out
}

pub struct ParsedVar {
    pub id: u64,
    pub name: String,
}

fn intern_static(s: &str) -> &'static str {
    match s {
        "Pair" => "Pair",
        "Triple" => "Triple",
        "Named" => "Named",
        "Some" => "Some",
        "" => "",
        other => Box::leak(other.to_string().into_boxed_str()),
    }
}

fn parse_term(toks: &[String], pos: &mut usize, vars: &mut Vec<ParsedVar>) -> Option<T> {
    let t = toks.get(*pos)?;
    if t == "nil" {
        *pos += 1;
        return Some(T::Nil);
    }
    if t != "(" {
        return None;
    }
    *pos += 1;
    let tag = toks.get(*pos)?.clone();
    *pos += 1;
    let r = match tag.as_str() {
        "i" => {
            let v = toks.get(*pos)?.parse::<i64>().ok()?;
            *pos += 1;
            T::Int(v)
        }
        "b" => {
            let v = toks.get(*pos)? == "true";
            *pos += 1;
            T::Bool(v)
        }
        "c" => {
            let v = toks.get(*pos)?.parse::<u32>().ok()?;
            *pos += 1;
            T::Char(char::from_u32(v)?)
        }
        "s" => {
            let v = unhex(toks.get(*pos)?);
            *pos += 1;
            T::Str(v)
        }
        "v" => {
            let id = toks.get(*pos)?.parse::<u64>().ok()?;
            let name = unhex(toks.get(*pos + 1)?);
            *pos += 2;
            let k = match vars.iter().position(|x| x.id == id) {
                Some(k) => k,
                None => {
                    vars.push(ParsedVar { id, name });
                    vars.len() - 1
                }
            };
            T::Var(k as V)
        }
        "k" => {
            let h = parse_term(toks, pos, vars)?;
            let tl = parse_term(toks, pos, vars)?;
            T::cons(h, tl)
        }
        "o" => {
            let name = unhex(toks.get(*pos)?);
            *pos += 1;
            let mut fs = vec![];
            while toks.get(*pos)? != ")" {
                fs.push(parse_term(toks, pos, vars)?);
            }
            T::Comp(intern_static(&name), fs)
        }
        "u" => T::s("#user"),
        _ => return None,
    };
    if toks.get(*pos)? != ")" {
        return None;
    }
    *pos += 1;
    Some(r)
}

/// One parsed `ANS` payload.
pub struct SurfaceAnswer {
    pub ans: Ans,
    /// names of the variables occurring in the answer terms / constraints (should all be "_")
    pub var_names: Vec<String>,
    pub display_order: Vec<String>,
    pub declared: Vec<String>,
}

pub fn parse_answer(payload: &str) -> Option<SurfaceAnswer> {
    let parts: Vec<&str> = payload.split(" | ").collect();
    if parts.len() != 4 {
        return None;
    }
    let mut vars: Vec<ParsedVar> = vec![];
    let toks = tokenize(parts[0].strip_prefix('T')?);
    let mut pos = 0;
    let mut items = vec![];
    while pos < toks.len() {
        items.push(parse_term(&toks, &mut pos, &mut vars)?);
    }
    let ctoks = tokenize(parts[1].strip_prefix('C')?);
    let mut cons = vec![];
    let mut p = 0;
    while p < ctoks.len() {
        // (d (p K V) ...)
        if ctoks[p] != "(" || ctoks.get(p + 1)? != "d" {
            return None;
        }
        p += 2;
        let mut pairs = vec![];
        while ctoks.get(p)? == "(" {
            if ctoks.get(p + 1)? != "p" {
                return None;
            }
            p += 2;
            let k = parse_term(&ctoks, &mut p, &mut vars)?;
            let v = parse_term(&ctoks, &mut p, &mut vars)?;
            if ctoks.get(p)? != ")" {
                return None;
            }
            p += 1;
            pairs.push((k, v));
        }
        if ctoks.get(p)? != ")" {
            return None;
        }
        p += 1;
        cons.push(pairs);
    }
    let order: Vec<String> = parts[2].strip_prefix("D ").unwrap_or("").split(',').filter(|s| !s.is_empty()).map(|s| s.to_string()).collect();
    let declared: Vec<String> = parts[3].strip_prefix("N ").unwrap_or("").split(',').filter(|s| !s.is_empty()).map(|s| s.to_string()).collect();
    Some(SurfaceAnswer { ans: Ans { tuple: T::list(items), cons }.renamed(), var_names: vars.iter().map(|v| v.name.clone()).collect(), display_order: order, declared })
}
