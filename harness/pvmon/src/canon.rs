//! Canonical forms of answers and the comparison relations (variant equality, instance equality
//! over a finite universe).
use crate::ast::Program;
use crate::refsem::RAnswer;
use crate::term::{T, V};
use std::collections::{BTreeMap, BTreeSet};
use std::fmt;

/// An answer in the common form used for comparisons: the query tuple (a list with one element
/// per query variable) and the attached disequality constraints, each a set of (lhs, rhs) pairs
/// read as "not all of these equalities hold".
#[derive(Clone, Debug, PartialEq, Eq, PartialOrd, Ord, Hash)]
pub struct Ans {
    pub tuple: T,
    pub cons: Vec<Vec<(T, T)>>,
}

impl fmt::Display for Ans {
    fn fmt(&self, f: &mut fmt::Formatter) -> fmt::Result {
        write!(f, "{}", self.tuple)?;
        if !self.cons.is_empty() {
            write!(f, " where ")?;
            for (i, c) in self.cons.iter().enumerate() {
                if i > 0 {
                    write!(f, " & ")?;
                }
                write!(f, "!(")?;
                for (j, (a, b)) in c.iter().enumerate() {
                    if j > 0 {
                        write!(f, ", ")?;
                    }
                    write!(f, "{}={}", a, b)?;
                }
                write!(f, ")")?;
            }
        }
        Ok(())
    }
}

impl Ans {
    pub fn from_ref(a: &RAnswer) -> Ans {
        Ans { tuple: a.tuple.clone(), cons: a.cons.iter().map(|c| c.iter().map(|(v, t)| (T::Var(*v), t.clone())).collect()).collect() }.renamed()
    }

    /// Rename variables in first-occurrence order (tuple first, then constraints in their
    /// current order), sort pairs and constraints. L1 canonical form: var-var pairs oriented
    /// smaller variable first.
    pub fn renamed(&self) -> Ans {
        let mut map: BTreeMap<V, V> = BTreeMap::new();
        let tuple = self.tuple.rename_with(&mut map);
        // To be independent of constraint order, number hidden variables after sorting the
        // constraints by their rendering with hidden variables blanked.
        let blank = |t: &T, map: &BTreeMap<V, V>| -> T {
            t.map_vars(&|v| match map.get(&v) {
                Some(n) => T::Var(*n),
                None => T::Var(9_999_999),
            })
        };
        let mut cons: Vec<Vec<(T, T)>> = self.cons.clone();
        for c in cons.iter_mut() {
            c.sort_by_key(|(a, b)| (blank(a, &map), blank(b, &map)));
        }
        cons.sort_by_key(|c| c.iter().map(|(a, b)| (blank(a, &map), blank(b, &map))).collect::<Vec<_>>());
        let mut out = vec![];
        for c in cons {
            let mut c2: Vec<(T, T)> = c
                .iter()
                .map(|(a, b)| {
                    let a2 = a.rename_with(&mut map);
                    let b2 = b.rename_with(&mut map);
                    match (&a2, &b2) {
                        (T::Var(x), T::Var(y)) if x > y => (b2, a2),
                        (x, T::Var(_)) if !x.is_var() => (b2, a2),
                        _ => (a2, b2),
                    }
                })
                .collect();
            c2.sort();
            c2.dedup();
            out.push(c2);
        }
        out.sort();
        Ans { tuple, cons: out }
    }

    /// Variables of the tuple (after `renamed`: 0..k).
    pub fn tuple_vars(&self) -> Vec<V> {
        self.tuple.vars()
    }

    /// L2 canonical form: each constraint replaced by the solved form of its equation system.
    pub fn solved(&self) -> Ans {
        use crate::term::Subst;
        let mut cons = vec![];
        for c in self.cons.iter() {
            let mut s = Subst::new();
            let mut ext = vec![];
            let mut ok = true;
            // unify in a deterministic order, binding larger variable numbers to smaller ones
            let mut pairs = c.clone();
            pairs.sort();
            for (a, b) in pairs.iter() {
                let (a, b) = orient(s.walk(a).clone(), s.walk(b).clone());
                if !s.unify(&a, &b, &mut ext) {
                    ok = false;
                    break;
                }
            }
            if !ok {
                continue; // can never hold: constraint is trivially true
            }
            let mut solved: Vec<(T, T)> = s.map.keys().map(|v| (T::Var(*v), s.walk_star(&T::Var(*v)))).collect();
            solved.sort();
            cons.push(solved);
        }
        cons.sort();
        cons.dedup();
        Ans { tuple: self.tuple.clone(), cons }
    }
}

fn orient(a: T, b: T) -> (T, T) {
    match (&a, &b) {
        (T::Var(x), T::Var(y)) if x < y => (b, a), // bind the larger (younger) variable
        _ => (a, b),
    }
}

/// Finite universe of ground terms for instance comparison.
pub fn universe(prog: &Program, extra: &[T]) -> Vec<T> {
    let mut atoms: Vec<T> = prog.atoms().into_iter().collect();
    for t in extra {
        let mut s = BTreeSet::new();
        t.atoms_into(&mut s);
        for a in s {
            if !atoms.contains(&a) {
                atoms.push(a);
            }
        }
    }
    atoms.truncate(6);
    atoms.push(T::s("#u1"));
    atoms.push(T::s("#u2"));
    let mut u: Vec<T> = atoms.clone();
    u.push(T::Nil);
    for a in atoms.iter().take(5) {
        u.push(T::list(vec![a.clone()]));
    }
    for a in atoms.iter().take(2) {
        for b in atoms.iter().take(2) {
            u.push(T::list(vec![a.clone(), b.clone()]));
        }
    }
    for (name, ar) in prog.comps() {
        let n = 2usize.pow(ar as u32).min(4);
        for k in 0..n {
            let fields: Vec<T> = (0..ar).map(|i| atoms[(k >> i) & 1].clone()).collect();
            u.push(T::Comp(name, fields));
        }
    }
    let mut seen = BTreeSet::new();
    u.retain(|t| seen.insert(t.clone()));
    u.truncate(26);
    u
}

pub const MAX_WIDE: usize = 3;

/// Ground instances of an answer over the universe, or None if the answer has too many free
/// variables to enumerate.
pub fn instances(a: &Ans, uni: &[T]) -> Option<BTreeSet<T>> {
    let vars = a.tuple.vars();
    if vars.len() > MAX_WIDE {
        return None;
    }
    let mut out = BTreeSet::new();
    let n = uni.len();
    let k = vars.len();
    let total = n.pow(k as u32);
    let tvars: BTreeSet<V> = vars.iter().copied().collect();
    for idx in 0..total {
        let mut m: BTreeMap<V, T> = BTreeMap::new();
        let mut r = idx;
        for v in vars.iter() {
            m.insert(*v, uni[r % n].clone());
            r /= n;
        }
        let mut ok = true;
        for c in a.cons.iter() {
            // the constraint is violated iff every pair is an equality under the assignment;
            // a pair mentioning a variable outside the tuple can always be made false.
            let mut all_hold = true;
            for (l, rr) in c.iter() {
                let hidden = l.vars().iter().chain(rr.vars().iter()).any(|v| !tvars.contains(v));
                if hidden {
                    all_hold = false;
                    break;
                }
                if l.subst(&m) != rr.subst(&m) {
                    all_hold = false;
                    break;
                }
            }
            if all_hold {
                ok = false;
                break;
            }
        }
        if ok {
            out.insert(a.tuple.subst(&m));
        }
    }
    Some(out)
}

/// Multiset of answers under instance equality; None if some answer is too wide.
pub fn inst_multiset(answers: &[Ans], uni: &[T]) -> Option<Vec<BTreeSet<T>>> {
    let mut v = vec![];
    for a in answers {
        v.push(instances(a, uni)?);
    }
    v.sort();
    Some(v)
}

/// Multiset of answer tuples up to renaming (constraints ignored). Always available.
pub fn tuple_multiset(answers: &[Ans]) -> Vec<T> {
    let mut v: Vec<T> = answers
        .iter()
        .map(|a| {
            let mut m = BTreeMap::new();
            a.tuple.rename_with(&mut m)
        })
        .collect();
    v.sort();
    v
}

/// Result of comparing two answer multisets.
#[derive(Debug, Clone, PartialEq, Eq)]
pub enum Cmp {
    Equal,
    /// compared on tuples only because some answer was too wide for instance enumeration
    EqualTuplesOnly,
    Different(String),
}

pub fn compare_multisets(a: &[Ans], b: &[Ans], uni: &[T]) -> Cmp {
    if a.len() != b.len() {
        return Cmp::Different(format!("answer counts differ: {} vs {}", a.len(), b.len()));
    }
    let ta = tuple_multiset(a);
    let tb = tuple_multiset(b);
    if ta != tb {
        return Cmp::Different(format!("answer tuples differ: {} vs {}", show_terms(&ta), show_terms(&tb)));
    }
    match (inst_multiset(a, uni), inst_multiset(b, uni)) {
        (Some(x), Some(y)) => {
            if x == y {
                Cmp::Equal
            } else {
                Cmp::Different(format!("ground instances differ: {} vs {}", show_answers(a), show_answers(b)))
            }
        }
        _ => Cmp::EqualTuplesOnly,
    }
}

/// Position-by-position comparison (same order): tuple variants + instance sets.
pub fn compare_sequences(a: &[Ans], b: &[Ans], uni: &[T]) -> Cmp {
    if a.len() != b.len() {
        return Cmp::Different(format!("answer counts differ: {} vs {}", a.len(), b.len()));
    }
    let mut tuples_only = false;
    for (i, (x, y)) in a.iter().zip(b.iter()).enumerate() {
        if !crate::term::variants(&x.tuple, &y.tuple) {
            return Cmp::Different(format!("position {}: {} vs {}", i, x, y));
        }
        match (instances(x, uni), instances(y, uni)) {
            (Some(ix), Some(iy)) => {
                if ix != iy {
                    return Cmp::Different(format!("position {}: instances differ: {} vs {}", i, x, y));
                }
            }
            _ => tuples_only = true,
        }
    }
    if tuples_only {
        Cmp::EqualTuplesOnly
    } else {
        Cmp::Equal
    }
}

pub fn show_terms(ts: &[T]) -> String {
    let v: Vec<String> = ts.iter().map(|t| format!("{}", t)).collect();
    format!("{{{}}}", v.join("; "))
}

pub fn show_answers(a: &[Ans]) -> String {
    let v: Vec<String> = a.iter().map(|t| format!("{}", t)).collect();
    format!("{{{}}}", v.join("; "))
}
