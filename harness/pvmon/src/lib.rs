//! pvmon: runtime-monitoring harness for proto-vulcan.
extern crate proto_vulcan;
pub mod ast;
pub mod build;
pub mod canon;
pub mod checks;
pub mod emit;
pub mod framework;
pub mod gen;
pub mod refsem;
pub mod run;
pub mod shrink;
pub mod term;
pub mod util;
