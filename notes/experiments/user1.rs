extern crate proto_vulcan;
use proto_vulcan::prelude::*;
use proto_vulcan::state::{State, SMap, SResult};
use proto_vulcan::stream::Stream;
use std::rc::Rc;

#[derive(Debug, Clone, Default)]
struct Mon { with: usize, take: usize, exts: Vec<String>, tags: Vec<&'static str> }

impl User for Mon {
    type UserTerm = ();
    type UserContext = ();
    fn process_extension<E: Engine<Self>>(mut state: State<Self, E>, ext: &SMap<Self, E>) -> SResult<Self, E> {
        let mut v: Vec<String> = ext.iter().map(|(k, v)| format!("{}={}", k, v)).collect(); v.sort();
        state.user_state.exts.push(v.join(","));
        Ok(state)
    }
    fn with_constraint<E: Engine<Self>>(state: &mut State<Self, E>, _c: &Rc<dyn Constraint<Self, E>>) { state.user_state.with += 1; }
    fn take_constraint<E: Engine<Self>>(state: &mut State<Self, E>, _c: &Rc<dyn Constraint<Self, E>>) { state.user_state.take += 1; }
}

fn probe<E: Engine<Mon>>(tag: &'static str) -> Goal<Mon, E> {
    proto_vulcan!(fngoal move |_s, state| { let state: State<Mon, E> = state;
        let mut state = state;
        state.user_state.tags.push(tag);
        let stored = state.cstore_ref().iter().count();
        println!("probe {}: with={} take={} stored={} exts={:?} tags={:?}", tag, state.user_state.with, state.user_state.take, stored, state.user_state.exts, state.user_state.tags);
        Stream::unit(Box::new(state))
    })
}


use proto_vulcan::lresult::LResult;
use proto_vulcan::query::{Query, QueryResult};
struct R<E: Engine<Mon>>(Vec<LResult<Mon, E>>);
impl<E: Engine<Mon>> QueryResult<Mon, E> for R<E> { fn from_vec(v: Vec<LResult<Mon, E>>) -> Self { R(v) } }
type E = DefaultEngine<Mon>;
fn main() {
    let x: LTerm<Mon, E> = LTerm::var("x");
    let y: LTerm<Mon, E> = LTerm::var("y");
    let qv = LTerm::from_vec(vec![x.clone(), y.clone()]);
    let body: Goal<Mon, E> = proto_vulcan!([ x != 5, probe({"a"}), [x, y] != [5, 6], probe({"b"}), [x, y] != [5, 6], probe({"c"}), conde { [x == 1, probe({"l"})], [x == 5, probe({"r"})] } ]);
    let goal: Goal<Mon, E> = proto_vulcan!(|__query__| { __query__ == qv, body, proto_vulcan::state::reify(__query__) });
    let q: Query<R<E>, Mon, E> = Query::new(vec![x.clone(), y.clone()], goal);
    for r in q.run_with_user(Mon::default(), ()) { println!("{} {} {:?}", r.0[0], r.0[1], r.0[0].1); }
}
