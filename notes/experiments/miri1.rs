extern crate proto_vulcan;
use proto_vulcan::prelude::*;
use proto_vulcan::relation::*;

fn main() {
    // project reached once
    let q = proto_vulcan_query!(|q| { |x| { x == 5, project |x| { q == x } } });
    for r in q.run() { println!("{}", r); }
    // project with list value
    let q = proto_vulcan_query!(|q| { |x, y| { x == [1, y], y == 2, project |x| { q == x } } });
    for r in q.run() { println!("{}", r); }
    let q = proto_vulcan_query!(|q| { conde { member(q, [1, 2, 3]), q == 4 }, q != 2 });
    for r in q.run() { println!("{}", r); }
    let q = proto_vulcan_query!(|x, y| { infdrange([x, y], {&(0..=3)}), ltfd(x, y), distinctfd([x, y]) });
    for r in q.run() { println!("{}", r); }
}
