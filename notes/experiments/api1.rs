extern crate proto_vulcan;
use proto_vulcan::prelude::*;
use proto_vulcan::goal::DFSGoal;
use proto_vulcan::operator::{OperatorParam, dfs, cond};
use proto_vulcan::operator::conj::InferredConj;
use proto_vulcan::relation::eq::Eq;
use proto_vulcan::relation::member;
use proto_vulcan::state::State;
use proto_vulcan::GoalCast;

type U = DefaultUser; type E = DefaultEngine<U>;
fn main() {
    let x: LTerm<U, E> = LTerm::var("x");
    let y: LTerm<U, E> = LTerm::var("y");
    // DFS goals via API
    let g1: DFSGoal<U, E> = member(x.clone(), LTerm::from_vec(vec![LTerm::from(1), LTerm::from(2)])).cast_into();
    let g2: DFSGoal<U, E> = cond(OperatorParam::new(&[&[Eq::new::<DFSGoal<U, E>>(y.clone(), LTerm::from(10)).cast_into()], &[Eq::new::<DFSGoal<U, E>>(y.clone(), x.clone()).cast_into()]])).cast_into();
    let top: Goal<U, E> = dfs(OperatorParam::new(&[&[g1, g2]])).cast_into();
    let _ = InferredConj::<U, E, Goal<U, E>>::from_array(&[]);
    // Drive the solver directly to get final states
    let mut solver: Solver<U, E> = Solver::new((), false);
    let mut stream = solver.start(&top, State::new(DefaultUser::new()));
    while let Some(state) = solver.next(&mut stream) {
        println!("x={} y={} | smap={} cstore={} dstore={}", state.smap_ref().walk_star(&x), state.smap_ref().walk_star(&y), state.smap_ref().len(), state.cstore_ref().iter().count(), state.dstore_ref().len());
    }
    println!("after end: {:?}", solver.next(&mut stream).is_none());
}
