extern crate proto_vulcan;
use proto_vulcan::prelude::*;
use proto_vulcan::relation::*;
use proto_vulcan::operator::conj::Conj;
use std::collections::BTreeMap;

type G = Goal<DefaultUser, DefaultEngine<DefaultUser>>;
type T = LTerm<DefaultUser, DefaultEngine<DefaultUser>>;

struct Rng(u64);
impl Rng { fn next(&mut self) -> u64 { self.0 = self.0.wrapping_add(0x9E3779B97F4A7C15); let mut z = self.0; z = (z ^ (z >> 30)).wrapping_mul(0xBF58476D1CE4E5B9); z = (z ^ (z >> 27)).wrapping_mul(0x94D049BB133111EB); z ^ (z >> 31) } fn below(&mut self, n: u64) -> u64 { self.next() % n } }

#[derive(Clone, Debug)]
enum C { Lte(usize, usize), Lt(usize, usize), Plus(usize, usize, usize), Minus(usize, usize, usize), Times(usize, usize, usize), Ne(usize, usize), Distinct(Vec<usize>) }

fn gen(rng: &mut Rng, nv: usize) -> Vec<C> {
    let n = 2 + rng.below(4) as usize;
    (0..n).map(|_| { let a = rng.below(nv as u64) as usize; let b = rng.below(nv as u64) as usize; let c = rng.below(nv as u64) as usize;
        match rng.below(7) { 0 => C::Lte(a, b), 1 => C::Lt(a, b), 2 => C::Plus(a, b, c), 3 => C::Minus(a, b, c), 4 => C::Times(a, b, c), 5 => C::Ne(a, b), _ => C::Distinct((0..nv).collect()) } }).collect()
}

fn run(cs: &Vec<C>, nv: usize, lo: isize, hi: isize, nq: usize) -> Vec<Vec<isize>> {
    let vars: Vec<T> = (0..nv).map(|_| LTerm::var("v")).collect();
    let mut goals: Vec<G> = vec![];
    for c in cs { goals.push(match c {
        C::Lte(a, b) => ltefd(vars[*a].clone(), vars[*b].clone()).cast_into(),
        C::Lt(a, b) => ltfd(vars[*a].clone(), vars[*b].clone()).cast_into(),
        C::Plus(a, b, c) => plusfd(vars[*a].clone(), vars[*b].clone(), vars[*c].clone()).cast_into(),
        C::Minus(a, b, c) => minusfd(vars[*a].clone(), vars[*b].clone(), vars[*c].clone()).cast_into(),
        C::Times(a, b, c) => timesfd(vars[*a].clone(), vars[*b].clone(), vars[*c].clone()).cast_into(),
        C::Ne(a, b) => diseqfd(vars[*a].clone(), vars[*b].clone()).cast_into(),
        C::Distinct(v) => distinctfd(LTerm::from_vec(v.iter().map(|i| vars[*i].clone()).collect())).cast_into(),
    }); }
    let all = LTerm::from_vec(vars.clone());
    goals.insert(1.min(goals.len()), infdrange(all, &(lo..=hi)).cast_into());
    let qv: T = LTerm::from_vec(vars[..nq].to_vec());
    let body: G = Conj::from_vec(goals);
    let query = proto_vulcan_query!(|q| { q == qv, body });
    query.run().map(|r| r.q.iter().map(|t| t.get_number().unwrap_or(-999)).collect()).collect()
}
use proto_vulcan::GoalCast;

fn main() {
    let seed: u64 = std::env::args().nth(1).map(|s| s.parse().unwrap()).unwrap_or(1);
    let mut rng = Rng(seed);
    let mut nondet = 0; let mut wrong = 0; let mut total = 0;
    for i in 0..400 {
        let nv = 2 + rng.below(3) as usize; let nq = 1 + rng.below(nv as u64) as usize;
        let lo = -(rng.below(3) as isize); let hi = 2 + rng.below(3) as isize;
        let cs = gen(&mut rng, nv);
        let mut seen: BTreeMap<Vec<Vec<isize>>, usize> = BTreeMap::new();
        let mut panicked = false;
        for _ in 0..12 {
            let cs2 = cs.clone();
            match std::thread::spawn(move || run(&cs2, nv, lo, hi, nq)).join() { Ok(r) => { *seen.entry(r).or_insert(0) += 1; } Err(_) => { panicked = true; break; } }
        }
        total += 1;
        if panicked { println!("#{} PANIC {:?} nv={} dom={}..={}", i, cs, nv, lo, hi); continue; }
        if seen.len() > 1 {
            nondet += 1;
            let sets: std::collections::BTreeSet<Vec<Vec<isize>>> = seen.keys().map(|k| { let mut k = k.clone(); k.sort(); k }).collect();
            println!("#{} NONDET {:?} nv={} nq={} dom={}..={} outcomes={} as-sets={}", i, cs, nv, nq, lo, hi, seen.len(), sets.len());
            if nondet <= 3 { for (k, v) in &seen { println!("   {} x {:?}", v, k); } }
        }
        let _ = &mut wrong;
    }
    println!("total={} nondet={}", total, nondet);
}
