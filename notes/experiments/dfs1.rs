extern crate proto_vulcan;
use proto_vulcan::prelude::*;
use proto_vulcan::relation::*;
use proto_vulcan::operator::*;

fn main() {
    let q = proto_vulcan_query!(|x, y| { dfs { cond { [member(x, [1, 2, 3]), cond { member(y, [10, 20]), y == 30 }], [x == 4, y == 40] }, cond { x != 2, x == 2 } } });
    for r in q.run() { print!("({},{}) ", r.x, r.y); }
    println!();
    let q = proto_vulcan_query!(|x, y| { dfs { append(x, y, [1, 2, 3]) } });
    for r in q.run() { print!("({},{}) ", r.x, r.y); }
    println!();
    // C03: constraint mentioning non-reified var?
    let q = proto_vulcan_query!(|q| { |z| { z != q } });
    for r in q.run() { println!("{} / {:?}", r, r.q.1); }
    let q = proto_vulcan_query!(|q| { |z| { q != z } });
    for r in q.run() { println!("{} / {:?}", r, r.q.1); }
    let q = proto_vulcan_query!(|q| { |z, w| { q == [z], z != [w, 1] } });
    for r in q.run() { println!("{} / {:?}", r, r.q.1); }
}
