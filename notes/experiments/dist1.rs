extern crate proto_vulcan;
use proto_vulcan::prelude::*;
use proto_vulcan::relation::*;
fn main() {
    let q = proto_vulcan_query!(|x, y| { infdrange([x, y], {&(1..=2)}), x == 1, y == 1, distinctfd([x, y]) });
    println!("bound-before-distinct answers: {:?}", q.run().map(|r| format!("{} {}", r.x, r.y)).collect::<Vec<_>>());
    let q = proto_vulcan_query!(|x, y| { infdrange([x, y], {&(1..=2)}), distinctfd([x, y]), x == 1, y == 1 });
    println!("distinct-first answers: {:?}", q.run().map(|r| format!("{} {}", r.x, r.y)).collect::<Vec<_>>());
    let q = proto_vulcan_query!(|x, y| { x == 1, y == 1, distinctfd([x, y]) });
    println!("no domains: {:?}", q.run().map(|r| format!("{} {}", r.x, r.y)).collect::<Vec<_>>());
}
