extern crate proto_vulcan;
use proto_vulcan::prelude::*;
use proto_vulcan::relation::*;
use proto_vulcan::verif;

fn first_n<I: Iterator<Item = isize>>(label: &str, it: I, n: usize, budget: u64) {
    verif::reset(budget);
    let r = std::panic::catch_unwind(std::panic::AssertUnwindSafe(|| {
        let mut out = vec![];
        for (i, a) in it.enumerate() { out.push((a, verif::top_steps(), verif::steps())); if i + 1 >= n { break; } }
        out
    }));
    match r { Ok(v) => println!("{}: {:?}", label, v), Err(e) => println!("{}: budget exceeded? {} steps={}", label, e.is::<verif::StepBudgetExceeded>(), verif::steps()) }
}
fn main() {
    std::panic::set_hook(Box::new(|_| {}));
    let q = proto_vulcan_query!(|q| { q == 1 });
    first_n("alone q==1", q.run().map(|r| r.q.get_number().unwrap()), 1, 100000);
    let q = proto_vulcan_query!(|q| { conde { never(), q == 1 } });
    first_n("never|q==1", q.run().map(|r| r.q.get_number().unwrap()), 1, 100000);
    let q = proto_vulcan_query!(|q| { conde { never(), never(), never(), q == 1 } });
    first_n("3never|q==1", q.run().map(|r| r.q.get_number().unwrap()), 1, 100000);
    let q = proto_vulcan_query!(|q| { member(q, [0,0,0,0,0,0,0,0,0,0,0,0,7]), q == 7 });
    first_n("alone deep", q.run().map(|r| r.q.get_number().unwrap()), 1, 100000);
    let q = proto_vulcan_query!(|q| { conde { never(), [always(), q == 3], never(), [member(q, [0,0,0,0,0,0,0,0,0,0,0,0,7]), q == 7] }, q == 7 });
    first_n("deep in 4-way", q.run().map(|r| r.q.get_number().unwrap()), 1, 1000000);
    let q = proto_vulcan_query!(|q| { conde { never(), [conde { never(), [always(), q == 3], [member(q, [0,0,0,0,0,0,0,0,0,0,0,0,7]), q == 7] }] }, q == 7 });
    first_n("deep nested d=2", q.run().map(|r| r.q.get_number().unwrap()), 1, 1000000);
    let q = proto_vulcan_query!(|q| { never() });
    first_n("never budget", q.run().map(|r| r.q.get_number().unwrap()), 1, 5000);
    let q = proto_vulcan_query!(|q| { loop { conde { q == 1, q == 2 } } });
    first_n("loop 12", q.run().map(|r| r.q.get_number().unwrap()), 12, 100000);
}
