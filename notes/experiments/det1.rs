extern crate proto_vulcan;
use proto_vulcan::prelude::*;
use proto_vulcan::relation::*;

fn run1() -> Vec<String> {
    let q = proto_vulcan_query!(|q| { |x, y, z, w| {
        infdrange([x, y, z, w], {&(0..=4)}), ltfd(x, y), plusfd(x, y, z), diseqfd(z, w), q == [x, z]
    } });
    q.run().map(|r| format!("{}", r.q)).collect()
}
fn run2() -> Vec<String> {
    let q = proto_vulcan_query!(|a, b, c| { a != 1, [a, b] != [2, 3], c != b, conde { b == 3, b == 4, a == 2 } });
    q.run().map(|r| format!("{}", r)).collect()
}
fn main() {
    for f in [run1 as fn() -> Vec<String>, run2] {
        let mut seen = std::collections::BTreeMap::new();
        for _ in 0..64 {
            let r = std::thread::spawn(f).join().unwrap();
            *seen.entry(r).or_insert(0) += 1;
        }
        println!("distinct outcomes: {}", seen.len());
        for (k, v) in seen.iter().take(4) { println!("{} x {:?}", v, k); }
    }
}
