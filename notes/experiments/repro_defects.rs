extern crate proto_vulcan;
use proto_vulcan::prelude::*;
use proto_vulcan::relation::*;
use proto_vulcan::operator::*;

#[compound]
struct Pair(LTerm, LTerm);

fn run<F: FnOnce() + std::panic::UnwindSafe>(name: &str, f: F) {
    println!("--- {}", name);
    if let Err(e) = std::panic::catch_unwind(f) {
        println!("PANIC: {:?}", e.downcast_ref::<String>().map(|s| s.as_str()).or(e.downcast_ref::<&str>().copied()));
    }
}

fn main() {
    run("C02 subsume", || {
        let q = proto_vulcan_query!(|x, y| { x != 5, [x, y] != [5, 6], x == 5, y == 7 });
        for r in q.run() { println!("{}", r); }
    });
    run("C03 compound constraints", || {
        let q = proto_vulcan_query!(|p, x| { p == Pair(1, x), x != 3 });
        for r in q.run() { println!("{} | p constrained: {}", r, r.p.is_constrained()); }
    });
    run("C16 plusfd alias", || {
        let q = proto_vulcan_query!(|x| { infdrange(x, {&(1..=3)}), plusfd(x, x, x) });
        for r in q.run() { println!("{}", r); }
    });
    run("C17 timesfd neg", || {
        let q = proto_vulcan_query!(|x, y| { infdrange([x, y], {&(-2..=2)}), timesfd(x, y, -2) });
        for r in q.run() { println!("{}", r); }
    });
    run("C17 compound label", || {
        let q = proto_vulcan_query!(|q| { |x, y| { infdrange([x, y], {&(0..=1)}), q == Pair(x, y) } });
        for r in q.run() { println!("{}", r); }
    });
    run("C19 plusz ground", || {
        let q = proto_vulcan_query!(|q| { plusz(1, 2, 3), q == 1 });
        println!("answers: {}", q.run().count());
    });
    run("C19 plusz allvar", || {
        let q = proto_vulcan_query!(|x, y, z| { plusz(x, y, z), x == 1, y == 2 });
        for r in q.run() { println!("{}", r); }
    });
    run("C19 timesz nondiv", || {
        let q = proto_vulcan_query!(|r| { timesz(2, r, 5) });
        for r in q.run() { println!("{}", r); }
    });
    run("C19 timesz zero", || {
        let q = proto_vulcan_query!(|r| { timesz(0, r, 0) });
        for r in q.run() { println!("{}", r); }
    });
    run("C11 project twice", || {
        let q = proto_vulcan_query!(|q| { |x| { member(x, [1, 2, 3]), project |x| { q == x } } });
        for r in q.run() { println!("{}", r); }
    });
    run("C07 never first", || {
        let q = proto_vulcan_query!(|q| { conde { never(), q == 1 } });
        println!("{}", q.run().next().unwrap());
    });
    run("C18 eq", || {
        use proto_vulcan::state::FiniteDomain;
        println!("1..=3 == 1..=5: {}", FiniteDomain::from(1..=3) == FiniteDomain::from(1..=5));
        println!("dup singleton: {}", FiniteDomain::from(vec![2,2]).is_singleton());
    });
    run("C22 dummy", || {});
}
