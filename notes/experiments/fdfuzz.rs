extern crate proto_vulcan;
use proto_vulcan::prelude::*;
use proto_vulcan::relation::*;
use proto_vulcan::operator::conj::Conj;
use proto_vulcan::GoalCast;
use std::collections::{BTreeMap, BTreeSet};

type G = Goal<DefaultUser, DefaultEngine<DefaultUser>>;
type T = LTerm<DefaultUser, DefaultEngine<DefaultUser>>;

struct Rng(u64);
impl Rng { fn next(&mut self) -> u64 { self.0 = self.0.wrapping_add(0x9E3779B97F4A7C15); let mut z = self.0; z = (z ^ (z >> 30)).wrapping_mul(0xBF58476D1CE4E5B9); z = (z ^ (z >> 27)).wrapping_mul(0x94D049BB133111EB); z ^ (z >> 31) } fn below(&mut self, n: u64) -> u64 { self.next() % n } }

// operand: variable index or constant
#[derive(Clone, Copy, Debug)]
enum O { V(usize), K(isize) }
#[derive(Clone, Debug)]
enum C { Dom(usize, Vec<isize>), Lte(O, O), Lt(O, O), Plus(O, O, O), Minus(O, O, O), Times(O, O, O), Ne(O, O), Distinct(Vec<O>), Eq(O, O) }

fn op(rng: &mut Rng, nv: usize, lo: isize, hi: isize) -> O { if rng.below(5) == 0 { O::K(lo + rng.below((hi - lo + 1) as u64) as isize) } else { O::V(rng.below(nv as u64) as usize) } }

fn gen(rng: &mut Rng, nv: usize, lo: isize, hi: isize) -> Vec<C> {
    let n = 1 + rng.below(5) as usize;
    let mut cs: Vec<C> = (0..n).map(|_| { let a = op(rng, nv, lo, hi); let b = op(rng, nv, lo, hi); let c = op(rng, nv, lo, hi);
        match rng.below(9) { 0 => C::Lte(a, b), 1 => C::Lt(a, b), 2 => C::Plus(a, b, c), 3 => C::Minus(a, b, c), 4 | 5 => C::Times(a, b, c), 6 => C::Ne(a, b), 7 => C::Eq(a, b),
            _ => { let k = 2 + rng.below(nv as u64) as usize; C::Distinct((0..k).map(|_| op(rng, nv, lo, hi)).collect()) } } }).collect();
    // every variable gets a domain, inserted at a random position (posting order varies)
    for v in 0..nv {
        let dom: Vec<isize> = if rng.below(3) == 0 { (lo..=hi).filter(|_| rng.below(3) != 0).collect() } else { (lo..=hi).collect() };
        let dom = if dom.is_empty() { vec![lo] } else { dom };
        let pos = rng.below(cs.len() as u64 + 1) as usize;
        cs.insert(pos, C::Dom(v, dom));
    }
    cs
}

fn term(o: &O, vars: &Vec<T>) -> T { match o { O::V(i) => vars[*i].clone(), O::K(k) => LTerm::from(*k) } }

fn run(cs: &Vec<C>, nv: usize, nq: usize) -> Vec<Vec<isize>> {
    let vars: Vec<T> = (0..nv).map(|_| LTerm::var("v")).collect();
    let mut goals: Vec<G> = vec![];
    for c in cs { let t = |o: &O| term(o, &vars); goals.push(match c {
        C::Dom(v, d) => { let contiguous = d.windows(2).all(|w| w[1] == w[0] + 1); if contiguous { infdrange(vars[*v].clone(), &(d[0]..=*d.last().unwrap())).cast_into() } else { infd(vars[*v].clone(), &d[..]).cast_into() } }
        C::Lte(a, b) => ltefd(t(a), t(b)).cast_into(),
        C::Lt(a, b) => ltfd(t(a), t(b)).cast_into(),
        C::Plus(a, b, c) => plusfd(t(a), t(b), t(c)).cast_into(),
        C::Minus(a, b, c) => minusfd(t(a), t(b), t(c)).cast_into(),
        C::Times(a, b, c) => timesfd(t(a), t(b), t(c)).cast_into(),
        C::Ne(a, b) => diseqfd(t(a), t(b)).cast_into(),
        C::Eq(a, b) => eq(t(a), t(b)).cast_into(),
        C::Distinct(v) => distinctfd(LTerm::from_vec(v.iter().map(|o| t(o)).collect())).cast_into(),
    }); }
    let qv: T = LTerm::from_vec(vars[..nq].to_vec());
    let body: G = Conj::from_vec(goals);
    let query = proto_vulcan_query!(|q| { q == qv, body });
    query.run().map(|r| r.q.iter().map(|t| t.get_number().unwrap_or(-999)).collect()).collect()
}

fn val(o: &O, a: &Vec<isize>) -> isize { match o { O::V(i) => a[*i], O::K(k) => *k } }
fn brute(cs: &Vec<C>, nv: usize, nq: usize, lo: isize, hi: isize) -> BTreeSet<Vec<isize>> {
    let mut out = BTreeSet::new();
    let span = (hi - lo + 1) as usize;
    let total = span.pow(nv as u32);
    'outer: for idx in 0..total {
        let mut a = vec![0isize; nv]; let mut r = idx; for i in 0..nv { a[i] = lo + (r % span) as isize; r /= span; }
        for c in cs { let ok = match c {
            C::Dom(v, d) => d.contains(&a[*v]),
            C::Lte(x, y) => val(x, &a) <= val(y, &a), C::Lt(x, y) => val(x, &a) < val(y, &a),
            C::Plus(x, y, z) => val(x, &a) + val(y, &a) == val(z, &a), C::Minus(x, y, z) => val(x, &a) - val(y, &a) == val(z, &a),
            C::Times(x, y, z) => val(x, &a) * val(y, &a) == val(z, &a), C::Ne(x, y) => val(x, &a) != val(y, &a), C::Eq(x, y) => val(x, &a) == val(y, &a),
            C::Distinct(v) => { let vs: Vec<isize> = v.iter().map(|o| val(o, &a)).collect(); let s: BTreeSet<_> = vs.iter().collect(); s.len() == vs.len() } };
            if !ok { continue 'outer; } }
        out.insert(a[..nq].to_vec());
    }
    out
}

fn main() {
    std::panic::set_hook(Box::new(|_| {}));
    let seed: u64 = std::env::args().nth(1).map(|s| s.parse().unwrap()).unwrap_or(1);
    let n: usize = std::env::args().nth(2).map(|s| s.parse().unwrap()).unwrap_or(500);
    let verbose: usize = std::env::args().nth(3).map(|s| s.parse().unwrap()).unwrap_or(8);
    let mut rng = Rng(seed);
    let (mut nondet, mut unsound, mut incomplete, mut dup, mut panics, mut ok) = (0, 0, 0, 0, 0, 0);
    let mut shown = 0;
    for i in 0..n {
        let nv = 1 + rng.below(4) as usize; let nq = 1 + rng.below(nv as u64) as usize;
        let lo = -(rng.below(4) as isize); let hi = 1 + rng.below(4) as isize;
        let cs = gen(&mut rng, nv, lo, hi);
        let expect = brute(&cs, nv, nq, lo, hi);
        let mut seen: BTreeMap<Vec<Vec<isize>>, usize> = BTreeMap::new();
        let mut panicked = None;
        for _ in 0..8 {
            let cs2 = cs.clone();
            match std::thread::spawn(move || run(&cs2, nv, nq)).join() { Ok(r) => { *seen.entry(r).or_insert(0) += 1; } Err(e) => { panicked = Some(e.downcast_ref::<String>().cloned().or(e.downcast_ref::<&str>().map(|s| s.to_string())).unwrap_or_default()); break; } }
        }
        if let Some(m) = panicked { panics += 1; if shown < verbose { shown += 1; println!("#{} PANIC {} :: {:?}", i, m, cs); } continue; }
        let mut bad = vec![];
        if seen.len() > 1 { nondet += 1; bad.push("NONDET"); }
        let mut u = false; let mut inc = false; let mut d = false;
        for k in seen.keys() { let s: BTreeSet<Vec<isize>> = k.iter().cloned().collect(); if s.len() != k.len() { d = true; } if !s.is_subset(&expect) { u = true; } if !expect.is_subset(&s) { inc = true; } }
        if u { unsound += 1; bad.push("UNSOUND"); } if inc { incomplete += 1; bad.push("INCOMPLETE"); } if d { dup += 1; bad.push("DUP"); }
        if bad.is_empty() { ok += 1; } else if shown < verbose { shown += 1; println!("#{} {:?} nv={} nq={} {}..={} :: {:?}\n    expect={:?}\n    got={:?}", i, bad, nv, nq, lo, hi, cs, expect, seen.keys().collect::<Vec<_>>()); }
    }
    println!("n={} ok={} nondet={} unsound={} incomplete={} dup={} panics={}", n, ok, nondet, unsound, incomplete, dup, panics);
}
