extern crate proto_vulcan;
use proto_vulcan::prelude::*;
use proto_vulcan::lterm::LTermInner;
use proto_vulcan::relation::diseq::DisequalityConstraint;
use proto_vulcan::relation::{eq, diseq};
use proto_vulcan::operator::conj::Conj;
use proto_vulcan::operator::conde::Conde;
use proto_vulcan::GoalCast;
use std::collections::{BTreeMap, HashMap};

type U = DefaultUser; type E = DefaultEngine<U>;
type G = Goal<U, E>; type T = LTerm<U, E>;
struct Rng(u64);
impl Rng { fn next(&mut self) -> u64 { self.0 = self.0.wrapping_add(0x9E3779B97F4A7C15); let mut z = self.0; z = (z ^ (z >> 30)).wrapping_mul(0xBF58476D1CE4E5B9); z = (z ^ (z >> 27)).wrapping_mul(0x94D049BB133111EB); z ^ (z >> 31) } fn below(&mut self, n: u64) -> u64 { self.next() % n } }

#[derive(Clone, Debug)] enum Tm { V(usize), K(isize), L(Vec<Tm>), I(Vec<Tm>, Box<Tm>) }
#[derive(Clone, Debug)] enum Gl { Eq(Tm, Tm), Ne(Tm, Tm), And(Vec<Gl>), Or(Vec<Gl>) }
fn gtm(r: &mut Rng, nv: usize, d: u32) -> Tm { match r.below(if d == 0 { 2 } else { 4 }) { 0 => Tm::V(r.below(nv as u64) as usize), 1 => Tm::K(r.below(3) as isize), 2 => Tm::L((0..r.below(3)).map(|_| gtm(r, nv, d - 1)).collect()), _ => Tm::I((0..1 + r.below(2)).map(|_| gtm(r, nv, d - 1)).collect(), Box::new(gtm(r, nv, d - 1))) } }
fn ggl(r: &mut Rng, nv: usize, d: u32) -> Gl { match r.below(if d == 0 { 2 } else { 5 }) { 0 | 3 => Gl::Ne(gtm(r, nv, 2), gtm(r, nv, 2)), 1 => Gl::Eq(gtm(r, nv, 2), gtm(r, nv, 2)), 2 => Gl::And((0..2 + r.below(3)).map(|_| ggl(r, nv, d - 1)).collect()), _ => Gl::Or((0..2 + r.below(2)).map(|_| ggl(r, nv, d - 1)).collect()) } }
fn btm(t: &Tm, vs: &Vec<T>) -> T { match t { Tm::V(i) => vs[*i].clone(), Tm::K(k) => LTerm::from(*k), Tm::L(v) => LTerm::from_vec(v.iter().map(|x| btm(x, vs)).collect()), Tm::I(v, t) => { let mut a: Vec<T> = v.iter().map(|x| btm(x, vs)).collect(); a.push(btm(t, vs)); LTerm::improper_from_vec(a) } } }
fn bgl(g: &Gl, vs: &Vec<T>) -> G { match g { Gl::Eq(a, b) => eq(btm(a, vs), btm(b, vs)).cast_into(), Gl::Ne(a, b) => diseq(btm(a, vs), btm(b, vs)).cast_into(), Gl::And(v) => Conj::from_vec(v.iter().map(|x| bgl(x, vs)).collect()), Gl::Or(v) => { let gs: Vec<G> = v.iter().map(|x| bgl(x, vs)).collect(); Conde::from_vec(gs).cast_into() } } }

fn show(t: &T, names: &mut HashMap<T, usize>) -> String { match t.as_ref() { LTermInner::Var(_, _) => { let n = names.len(); format!("_{}{}", names.entry(t.clone()).or_insert(n), if t.is_any() { "" } else { "!HIDDEN" }) } LTermInner::Cons(h, tl) => format!("({} . {})", show(h, names), show(tl, names)), LTermInner::Empty => "()".into(), _ => format!("{}", t) } }
fn run(g: &Gl, nv: usize, nq: usize) -> Vec<String> {
    let vs: Vec<T> = (0..nv).map(|_| LTerm::var("v")).collect();
    let body = bgl(g, &vs); let qv = LTerm::from_vec(vs[..nq].to_vec());
    let query = proto_vulcan_query!(|q| { q == qv, body });
    query.run().map(|r| { let mut names = HashMap::new(); let t = show(&r.q.0, &mut names);
        let mut cs: Vec<String> = r.q.1.iter().map(|c| { let d = c.downcast_ref::<DisequalityConstraint<U, E>>().unwrap(); let mut ps: Vec<String> = d.smap_ref().iter().map(|(k, v)| { let a = show(k, &mut names); let b = show(v, &mut names); if v.is_var() && b < a { format!("{}#{}", b, a) } else { format!("{}#{}", a, b) } }).collect(); ps.sort(); ps.join("&") }).collect();
        cs.sort(); format!("{} | {}", t, cs.join(" ; ")) }).collect()
}
fn main() {
    std::panic::set_hook(Box::new(|_| {}));
    let seed: u64 = std::env::args().nth(1).map(|s| s.parse().unwrap()).unwrap_or(1);
    let n: usize = std::env::args().nth(2).map(|s| s.parse().unwrap()).unwrap_or(500);
    let mut r = Rng(seed); let (mut nondet, mut hidden, mut panics, mut shown) = (0, 0, 0, 0);
    for i in 0..n {
        let nv = 2 + r.below(3) as usize; let nq = 1 + r.below(nv as u64) as usize; let g = Gl::And((0..2 + r.below(4)).map(|_| ggl(&mut r, nv, 2)).collect());
        let mut seen: BTreeMap<Vec<String>, usize> = BTreeMap::new(); let mut p = false;
        for _ in 0..8 { let g2 = g.clone(); match std::thread::spawn(move || run(&g2, nv, nq)).join() { Ok(v) => { *seen.entry(v).or_insert(0) += 1; } Err(_) => { p = true; break; } } }
        if p { panics += 1; println!("#{} PANIC {:?}", i, g); continue; }
        if seen.keys().any(|k| k.iter().any(|s| s.contains("HIDDEN"))) { hidden += 1; }
        if seen.len() > 1 { nondet += 1; if shown < 4 { shown += 1; println!("#{} NONDET nv={} nq={} {:?}", i, nv, nq, g); for (k, v) in &seen { println!("   {} x {:?}", v, k); } } }
    }
    println!("n={} nondet={} hidden_var_in_constraints={} panics={}", n, nondet, hidden, panics);
}
