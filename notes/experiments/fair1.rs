extern crate proto_vulcan;
use proto_vulcan::prelude::*;
use proto_vulcan::relation::*;
fn main() {
    let q = proto_vulcan_query!(|q| { conde { [always(), q == 1], [always(), q == 2], [never()], [always(), q == 3] } });
    println!("{:?}", q.run().take(24).map(|r| r.q.get_number().unwrap()).collect::<Vec<_>>());
    let q = proto_vulcan_query!(|q, r| { conde { [never()], [append(q, r, [1,2,3])] }, conde { never(), true } });
    println!("{:?}", q.run().take(4).map(|r| format!("{}", r.q)).collect::<Vec<_>>());
    let q = proto_vulcan_query!(|q, r, s| { append(q, r, s) });
    println!("{:?}", q.run().take(4).map(|r| format!("{}/{}/{}", r.q, r.r, r.s)).collect::<Vec<_>>());
}
