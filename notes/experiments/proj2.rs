extern crate proto_vulcan;
use proto_vulcan::prelude::*;
use proto_vulcan::relation::*;
fn main() {
    let q = proto_vulcan_query!(|q| { |x, y| { member(x, [1, 2, 3]), conde { y == 10, y == 20 }, project |x, y| { q == [x, y], conde { x == 1, x == 2, x == 3 } } } });
    let a: Vec<String> = q.run().map(|r| format!("{}", r.q)).collect(); println!("{:?}", a);
    let b: Vec<String> = q.run().map(|r| format!("{}", r.q)).collect(); println!("second run equal: {}", a == b);
    let q = proto_vulcan_query!(|q| { |x| { project |x| { q == x }, x == 5 } });
    for r in q.run() { println!("unbound at project: {}", r); }
}
