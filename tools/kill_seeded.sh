#!/bin/bash
# usage: kill_seeded.sh <seeded dir> <tier> <check id>...  (uses the isolated copy made by kill_env.sh)
S=${KILL_ENV:-}; D=$1; TIER=$2; shift 2
cd /tmp/krepo$S || exit 3
git checkout -q -- . 
git apply $D/patch.diff || { echo "PATCH-DOES-NOT-APPLY $D"; exit 3; }
for id in "$@"; do
  OUT=$(cd /tmp/kv$S && PVMON_REPO=/tmp/krepo$S PVMON_SKIP_MIRI=1 ./check $id $TIER 2>&1)
  CODE=$?
  echo "[$(basename $D)] $id $TIER exit=$CODE :: $(echo "$OUT" | grep -E "verdict=" | tail -1)"
  echo "$OUT" | grep -E "monitor=" | head -2 | cut -c1-260
  echo "$OUT" | grep -E "INCONCLUSIVE" | head -2 | cut -c1-200
done
git checkout -q -- .
