#!/usr/bin/env python3
"""usage: try_mutant.py <mutant id> <tier> <check id>...  — apply a single-site mutant from
notes/mutants/survivors.py to /repo, run the checks, undo (git checkout)."""
import sys, subprocess, os
sys.path.insert(0, '/verif/notes/mutants')
from survivors import SURVIVORS
mid, tier, checks = sys.argv[1], sys.argv[2], sys.argv[3:]
ent = [e for e in SURVIVORS if e[0] == mid]
if not ent: sys.exit("no such mutant")
_, props, path, old, new = ent[0]
if subprocess.run(['git','-C','/repo','status','--porcelain','--untracked-files=no'],capture_output=True,text=True).stdout.strip():
    sys.exit('/repo not clean')
p = os.path.join('/repo', path); s = open(p).read()
if old not in s: sys.exit('MUTANT-DOES-NOT-APPLY ' + mid)
open(p, 'w').write(s.replace(old, new) if mid == 'N06' else s.replace(old, new, 1))
try:
    for c in checks:
        r = subprocess.run(['./check', c, tier], cwd='/verif', capture_output=True, text=True)
        lines = r.stdout.splitlines()
        verdict = [l for l in lines if 'verdict=' in l][-1:] 
        print(f"[{mid} -> {props}] {c} {tier} exit={r.returncode} :: {' '.join(verdict)}")
        for l in [l for l in lines if 'monitor=' in l or 'INCONCLUSIVE' in l][:2]: print('   ', l[:240])
finally:
    subprocess.run(['git','-C','/repo','checkout','-q','--','.'])
