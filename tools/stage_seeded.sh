#!/bin/bash
# usage: stage_seeded.sh <Cxx> <round letter>   copies /tmp/wt_<Cxx><r>/SEEDED to seeded/<Cxx>-<r> and removes the worktree
P=$1; R=$2; WT=/tmp/wt_$P$R
mkdir -p /verif/seeded/$P-$R && cp $WT/SEEDED/* /verif/seeded/$P-$R/ && cp $WT/TASK.md /verif/seeded/$P-$R/TASK.md 2>/dev/null
git -C /repo worktree remove --force $WT && ls /verif/seeded/$P-$R
