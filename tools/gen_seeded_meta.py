#!/usr/bin/env python3
"""Write seeded/<id>/meta.json from the verification logs and the table below."""
import json, os, re, glob
ROOT = '/verif/seeded'
INFO = {
 'C01-a': ('C01', 'occurs check run on the unwalked right-hand variable: needs a prior alias (a == b), the variable on the RIGHT of ==, and a genuine cycle ([1 | a] == a)', ['C01', 'C20']),
 'C02-a': ('C02', 'DisequalityConstraint::run unifies each pair against a fresh clone of the state: needs a stored multi-pair disequality posted BEFORE a unification that couples its pairs (x == y after [x,y] != [1,2])', ['C02', 'C04', 'C24']),
 'C02-b': ('C02', 'purify filters a multi-pair disequality pair by pair (drops pairs over non-answer variables, keeps the rest): needs a disequality with >= 2 pairs, one over a hidden unbound variable and one over answer variables', ['C02', 'C03']),
 'C03-a': ('C03', 'SMap::is_reified ignores the open tail of an improper list: needs a reported disequality whose value is [.. | t] with t a hidden unbound variable', ['C03']),
 'C03-b': ('C03', 'DisequalityConstraint::operands returns keys only: needs a var-var disequality whose value-side variable is in the inspected result and whose key-side variable is not', ['C03']),
 'C04-a': ('C04', 'same mechanism as C02-a (per-pair clone in DisequalityConstraint::run): order-dependent answers', ['C04', 'C02']),
 'C05-a': ('C05', 'DFS Conde::solve prepends the middle clauses in reverse: needs a cond/match with >= 4 clauses of which two middle ones answer', ['C05']),
 'C05-b': ('C05', 'reify fast path also requires an empty constraint store: needs dfs, a pending disequality on every answer, and an early answer with a much larger term than a later one', ['C05']),
 'C06-a': ('C06', 'mplus drops a Delay(Lazy) tail it takes for exhausted: needs a trivially true disjunct with pending later clauses inside another interleave', ['C06']),
 'C06-b': ('C06', 'Conde::from_conjunctions take_while(!is_fail): needs a statically failing arm (literal false) that is not the last arm', ['C06']),
 'C07-a': ('C07', 'StreamEngine::step loops through bare Pause chains: needs a diverging branch that recurses only through pause-only wrappers (closure around a single goal)', ['C07']),
 'C07-b': ('C07', 'Conde::solve take_while(!is_fail) over the reversed later branches: needs >= 3 branches with a statically failing branch in position three or later', ['C07', 'C06']),
 'C08-a': ('C08', 'rest goals of conda/condu/matcha/matchu conjoined in reverse: needs >= 2 order-sensitive rest goals (nested committed choice)', ['C08']),
 'C08-b': ('C08', 'macro drops literal true from bracketed conjunctions: needs SURFACE syntax with a conda/condu clause [true, g] (head promoted to g)', ['C14']),
 'C09-a': ('C09', 'PauseDFS runs to its first answer inside one step: needs a dfs block that diverges without answers as a branch next to a productive sibling', ['C09']),
 'C09-b': ('C09', 'DFS conjunction no longer pauses its first goal: needs dfs and a recursive closure whose recursive call is the first/only goal of a clause (no fresh block)', ['C09']),
 'C10-a': ('C10', 'Conde::solve skips statically failing branches but still starts conjunctions[0]: needs a statically failing FIRST branch and a live sibling', ['C10', 'C06']),
 'C10-b': ('C10', 'mplus keeps the exhausted side and drops the pending one: needs Cons(state, Delay(Empty)) on the left with a pending sibling (last branch `true`, or a dfs block as a branch)', ['C10', 'C06']),
 'C11-a': ('C11', 'project memoises the body on pointer-identical walked terms: needs >= 2 states, the projected variable walking to the same shared structured term whose inner variable is bound differently per state', ['C11']),
 'C12-a': ('C12', 'for caches the conjunction built from the first state: needs the same for goal reached by several states with a collection holding a variable bound differently', ['C12']),
 'C13-a': ('C13', 'pattern variables inside a list literal in rest position are not declared: needs a pattern [a | [b | c]] (and an outer variable of that name, else it does not compile)', ['C13']),
 'C14-a': ('C14', '[x | [a, b]] (proper literal tail) parsed as an improper list', ['C14']),
 'C15-a': ('C15', '__term__ alias taken after the pattern variables are declared: needs a pattern variable with the same name as a variable of the scrutinee', ['C15', 'C13']),
 'C16-a': ('C16', 'exclude_from_domain overwrites instead of intersecting: needs distinctfd with two unbound variables, a number in the list, and an ltefd posted before that is dropped after narrowing', ['C16']),
 'C16-b': ('C16', 'a singleton binding re-runs only constraints whose RAW operands mention the walked variable: needs var-var aliasing a == x, a bounds constraint posted on the alias, x bound by propagation, no later unification', ['C16']),
 'C17-a': ('C17', 'From<Vec<isize>> dedups before sorting: needs an infd slice with a non-adjacent repeated value (answers duplicated)', ['C17', 'C18']),
 'C17-b': ('C17', 'force_ans skips non-variable list elements: needs a list/compound nested directly inside a list in the answer term, holding FD variables', ['C17']),
 'C18-a': ('C18', 'gapless-vector shortcut counts duplicates: needs a vector with repeats and holes where the surplus equals the number of holes', ['C18']),
 'C19-a': ('C19', 'constraints re-run only if an operand occurs in the extension (unwalked): needs a suspended plusz/timesz whose operand was aliased x -> y before y is grounded', ['C19']),
 'C20-a': ('C20', 'occurs_check_compound compares unwalked variable fields: needs a compound field variable already bound to something that leads back to x', ['C01', 'C20']),
 'C20-b': ('C20', 'force_ans keeps only variable fields of a compound: needs FD variables at depth >= 2 inside an in-place nested compound/list field', ['C20', 'C17']),
 'C21-a': ('C21', '== on lists via iter().eq(): an improper list equals the proper list with the same element sequence', ['C21']),
 'C22-a': ('C22', 'process_extension skipped when the unification bound nothing: needs a successful unification with an empty extension', ['C22']),
 'C22-b': ('C22', 'the extension records the UNWALKED left term: needs left operand a variable already bound to a non-variable and right operand an unbound variable', ['C22']),
 'C23-a': ('C23', 'no constraint re-run when a first one-value domain binds a variable: needs a tree disequality on x, then x given a one-value domain, and no later unification (assert in diseq walk_star)', ['C23']),
 'C24-a': ('C24', 'same mechanism as C02-a: needs list elements that are themselves lists (multi-pair disequalities posted by distinct/rember/member1) and later bindings', ['C24', 'C02', 'C04']),
 'C01-b': ('C01', 'SMap::walk_star loops along the list spine and does not deep-walk a compound improper tail: needs [a | t] with t (walked) a compound holding a bound variable, in an answer', ['C01', 'C20']),
 'C04-b': ('C04', 'resolve_storable_domain re-runs only constraints whose RAW operands mention the root: needs an FD constraint posted on an alias, the root narrowed to one value by propagation/intersection, and no later unification', ['C04', 'C16']),
 'C11-b': ('C11', 'project macro + operator changed consistently (body takes Vec<LTerm>) and the names of |x, y| are paired with the projected values in reverse: needs project over >= 2 variables with an asymmetric body', ['C11']),
 'C12-b': ('C12', 'InferredConj::from_conjunctions keeps only the first goal of a multi-goal clause: needs a for body with a bracketed clause [g1, g2, ..] written in SURFACE syntax', ['C12']),
 'C13-b': ('C13', 'matche/matcha/matchu no longer alias the scrutinee as __term__ before declaring pattern variables: needs a pattern variable with the same name as a variable of the scrutinee (Clash naming twin)', ['C13']),
 'C14-b': ('C14', 'SMap::reify skips free variables named _: needs a user-written _ still free in the answer with a disequality on it (the constraint is dropped by purify)', ['C14', 'C03']),
 'C15-b': ('C15', 'pattern variables of a |-arm collected from the first alternative only: needs an arm p1 | p2 where p2 mentions a variable p1 does not (captures an outer variable of that name, else does not compile)', ['C15', 'C13']),
 'C18-b': ('C18', 'is_disjoint fast path for Sparse x Interval is off by one at the interval end: needs a mixed-representation pair whose only shared value is the interval end ({1,5} vs 3..=5)', ['C18']),
 'C19-b': ('C19', 'timesz arm u,w ground binds v without re-running the store: needs timesz(a, x, c) solving x with an EARLIER plusz/timesz sharing x and no later unification', ['C19']),
 'C21-b': ('C21', 'LTermIterMut stops before the improper tail: needs an improper list traversed mutably (iter_mut / IndexMut at the tail position)', ['C21']),
 'C23-b': ('C23', 'Sparse x Sparse intersection returns an EMPTY domain for overlapping-range sets without a common value: needs two interleaving sparse domains meeting on one variable ({-1,1} and {0,2}); later min/max/labeling panics', ['C23', 'C16', 'C17', 'C18']),
 'C24-b': ('C24', 'push_and_normalize discards the NEW disequality when it subsumes a stored one: needs list elements that are lists sharing variables (multi-pair weak constraint first, stronger one later) in distinct/member1/rember', ['C24', 'C02']),
 'C02-c': ('C02', 'DisequalityConstraint::walk_star skips the walk when no operand (top-level variable) is bound: needs a disequality whose VALUE side is a list/compound holding a variable that is later bound, key still free in the answer (purify then drops the constraint)', ['C02', 'C03']),
 'C03-c': ('C03', 'same change as C14-b, found independently (SMap::reify skips free variables named _)', ['C03', 'C14']),
 'C05-c': ('C05', 'the macro expands the alternatives of a `p1 | p2 | ..` arm right to left (pop from the back): needs dfs, SURFACE syntax and an arm with >= 2 alternatives that both match', ['C05', 'C13']),
 'C06-c': ('C06', 'same mechanism as C02-a, found independently (per-pair clone in DisequalityConstraint::run): needs a non-linear disequality and a later conflicting binding', ['C06', 'C02']),
 'C08-c': ('C08', 'onceo passes its body clauses to Condu::from_conjunctions directly (each clause becomes a condu clause): needs an onceo with more than one body goal', ['C08', 'C14']),
 'C09-c': ('C09', 'DisequalityConstraint::run sorts its pairs by variable NAME (stable sort over HashMap order): needs >= 2 pairs whose key variables share a name (user-written _), a var-var chain, a later unification, and a cross-run comparison of the constraint text', ['C09']),
 'C10-c': ('C10', 'the conde keyword lifts the arms of a nested conde that is the FIRST goal of an arm and drops the goals after it: needs conde { [conde { .. }, g, ..], .. } built through operator::conde', ['C10', 'C04']),
 'C16-c': ('C16', 'update_var_domain returns early when the new domain spans the stored one by its bounds: needs a sparse domain with interior holes merged into an existing domain inside its span (second infd, or directional x == y)', ['C16', 'C17']),
 'C17-c': ('C17', 'DistinctFd2Constraint appends newly bound values unsorted while the duplicate test binary-searches: needs an aliased list element (z == w) and two other elements labelled in descending order; yields spurious answers, so it is C16 (soundness) that observes it', ['C16']),
 'C22-c': ('C22', 'State::take_constraint calls U::take_constraint even when the store did not hold the constraint: needs a constraint that removes itself during run_constraints (subsumed disequality / nested FD propagation)', ['C22']),
 'C01-c': ('C01', 'the Compound/Compound arm of unify_rec passes the LTerm wrappers to unify_rec_compound, so the type check compares LTerm with LTerm: needs two compounds of DIFFERENT types with the same arity and unifiable fields', ['C01', 'C20']),
 'C04-c': ('C04', 'FiniteDomain::intersect returns self when other contains both ends of self (wrong for a sparse other with interior holes; asymmetric): needs two domains on one variable, the second sparse with a hole inside the first', ['C04', 'C16']),
 'C07-c': ('C07', 'Stream::mplus does not swap when the immature stream is depth-first (BindDFS/MPlusDFS/PauseDFS root): needs a bare dfs { diverging } block as the only/last goal of a branch next to a productive sibling', ['C07', 'C09']),
 'C11-c': ('C11', 'SMap::walk_star returns a list cell unwalked when none of its top-level elements is a variable: needs a nested list whose inner element holds a bound variable', ['C11', 'C01']),
 'C12-c': ('C12', 'Everyg::solve skips repeated collection elements (HashSet): needs a collection with a repeated element and a body that multiplies answers when applied twice', ['C12']),
 'C13-c': ('C13', 'the pattern-variable set of an arm is shared by its alternatives (accumulates): needs p1 | p2 where p1 has a name p2 lacks, used in the body, with an outer variable of that name', ['C13']),
 'C14-c': ('C14', 'same change as C24-b, found independently (push_and_normalize subsumption test swapped)', ['C02', 'C24']),
 'C15-c': ('C15', 'Closure caches its body goal in a OnceCell: needs ONE closure goal value solved twice on one path with fresh variables in its body', ['C15']),
 'C18-c': ('C18', 'copy_before computes u - 1 before the emptiness test: needs an interval whose lower bound is isize::MIN and a predicate true at the first value', ['C18']),
 'C19-c': ('C19', 'push_and_normalize drops every stored constraint that is not a tree disequality: needs a suspended plusz/timesz in the store when a != is pushed or re-run', ['C19']),
 'C20-c': ('C20', 'is_reified_compound uses any instead of all: needs a disequality whose value side is a compound with one hidden variable and one ground/answer field', ['C20', 'C03']),
 'C21-c': ('C21', 'derive for tuple-struct compounds compares self with self in PartialEq: needs two tuple-struct compounds of the same type with different fields', ['C21']),
 'C23-c': ('C23', 'verify_all_bound looks the domain up under the unwalked operand: needs an FD constraint on x, x == y binding x, both hidden and unbound at reification', ['C23', 'C16']),
 'C24-c': ('C24', 'process_extension_diseq skips run_constraints when a binding maps a variable to an unconstrained unbound variable: needs var-to-var aliasing after distinct/member1/rember with nothing ground afterwards', ['C24', 'C02']),
 'C05-d': ('C05', 'DFSConj::from_conjunctions folds forwards (from_iter) and loses the reversal: needs >= 2 comma-separated clauses directly in a dfs { } body, two of them with several answers', ['C05']),
 'C07-d': ('C07', 'Conde::from_conjunctions skips empty clauses: needs the empty clause [] (an empty conjunction, which succeeds once) as a branch', ['C07', 'C10']),
 'C10-d': ('C10', 'the macro consumes the arm body for the first alternative only: needs a match arm p0 | p1 with a non-empty body (later alternatives lose the body)', ['C13']),
 'C11-d': ('C11', 'compound_walk_star of an LTerm field does a plain walk unless the field is a nested compound: needs the projected variable to walk to a compound whose field is a list holding a bound variable', ['C11', 'C20']),
 'C12-d': ('C12', 'InferredConj::from_iter returns succeed when size_hint().0 == 0: needs a non-empty LTerm-list collection (its iterator reports (0, None))', ['C12']),
 'C15-d': ('C15', 'the variable-id counter is thread-local and rewound to a mark taken at Query::new whenever a query is run: needs two iterators alive at once (an older query run while a younger one is suspended and still creates variables lazily)', ['C09']),
 'C19-d': ('C19', 'plusz solving for its first operand binds the UNWALKED operand: needs the operand aliased before (x == y with x on the left) and the result observed through the alias', ['C19']),
 'C24-d': ('C24', 'occurs_check follows the list spine without walking tail variables: needs a cycle that closes through a bound tail variable (append([1, 2], t, t))', ['C24', 'C01']),
}
logs = ''
for f in glob.glob(os.path.join(ROOT, 'verify_wave*.log')) + glob.glob('/tmp/verify_wave*.log'):
    logs += open(f).read() + '\n'
def results(dirname):
    # the logs are sequences of "== Cxx" blocks; the wave tells the round
    out = {}
    return out
blocks = {}
for f in sorted(set(glob.glob(os.path.join(ROOT, 'verify_wave*.log')) + glob.glob('/tmp/verify_wave*.log'))):
    rnd = 'd' if 'wave8' in f else 'c' if ('wave6' in f or 'wave7' in f) else ('b' if ('wave4' in f or 'wave5' in f) else 'a')
    cur = None
    for line in open(f):
        m = re.match(r'== (C\d\d)', line)
        if m:
            cur = m.group(1) + '-' + rnd
            blocks[cur] = []
        elif cur and line.startswith('RESULT'):
            blocks[cur].append(line.strip()[:200])
for d in sorted(os.listdir(ROOT)):
    p = os.path.join(ROOT, d)
    if not os.path.isdir(p) or d not in INFO:
        continue
    prop, needs, caught = INFO[d]
    meta = {
        'id': d,
        'breaks_property': prop,
        'origin': 'written by a sub-agent that was given only the text of the property and a scratch git worktree of /repo',
        'needs_to_manifest': needs,
        'files': ['patch.diff', 'seeded_demo.rs', 'NOTES.md'] + (['patch.orig.diff (as delivered; patch.diff is the same change rebased onto the fix in DisequalityConstraint::run)'] if os.path.exists(os.path.join(p, 'patch.orig.diff')) else []),
        'what_i_ran': {
            'confirmation': 'tools/verify_seeded.sh <dir> in a scratch worktree of /repo HEAD: apply patch.diff, cargo test --workspace --offline --lib (must pass 185), copy seeded_demo.rs to tests/, cargo test --test seeded_demo (must fail), git checkout -- src macros, same demo (must pass)',
            'results': blocks.get(d, ['(verification log not found)']),
            'checks': 'tools/kill_seeded.sh <dir> quick <check ids> (isolated copy: /tmp/kv + /tmp/krepo) or tools/try_seeded.sh (applies to /repo and undoes)',
        },
        'caught_by_quick_checks': caught,
    }
    json.dump(meta, open(os.path.join(p, 'meta.json'), 'w'), indent=1)
    print(d, 'ok', len(blocks.get(d, [])))
