#!/usr/bin/env python3
"""Systematic single-line mutants of /repo (never applied to /repo itself).

  mutate.py gen                      -> /tmp/mut/list.json (all candidate mutants)
  mutate.py filter <k> <n>           -> worker k of n: compile + run the 185 tests for its share in a scratch
                                        worktree /tmp/mut/w<k>; results appended to /tmp/mut/filter-<k>.jsonl
  mutate.py survivors                -> list the mutants that compile and pass the suite
  mutate.py kill <env suffix> <k> <n> [tier] -> worker k of n over the survivors: apply to /tmp/krepo<S>, run the quick checks
                                        mapped to the file (stops at the first check that reports a VIOLATION),
                                        results appended to /tmp/mut/kill-<k>.jsonl

The mutation rules are textual and line-based; only lines of non-test code are touched.
"""
import json, os, re, subprocess, sys, hashlib

REPO = '/repo'
OUT = '/tmp/mut'
FILES = None

RULES = [
    (r' < ', ' <= '), (r' <= ', ' < '), (r' > ', ' >= '), (r' >= ', ' > '),
    (r' == ', ' != '), (r' != ', ' == '),
    (r' && ', ' || '), (r' \|\| ', ' && '),
    (r' \+ 1\b', ' - 1'), (r' - 1\b', ' + 1'), (r' \+ 1\b', ''), (r' - 1\b', ''),
    (r' \+ ', ' - '), (r' - ', ' + '), (r' \* ', ' + '), (r' / ', ' * '), (r' % ', ' / '),
    (r'\.min\(', '.max('), (r'\.max\(', '.min('), (r'\bmin\(', 'max('), (r'\bmax\(', 'min('),
    (r'\.rev\(\)', ''),
    (r'\btrue\b', 'false'), (r'\bfalse\b', 'true'),
    (r'\.is_empty\(\)', '.is_empty() == false'),
    (r'!(\w)', r'\1'),
    (r'\.saturating_sub\(', '.saturating_add('), (r'\.saturating_add\(', '.saturating_sub('),
    (r'\.first\(\)', '.last()'), (r'\.last\(\)', '.first()'),
    (r'\.skip\(1\)', ''), (r'\.take\((\w+)\)', r'.take(\1 + 1)'),
    (r'\.is_some\(\)', '.is_none()'), (r'\.is_none\(\)', '.is_some()'),
    (r'\.any\(', '.all('), (r'\.all\(', '.any('),
    (r'Ok\(state\)', 'Err(())'), (r'return Err\(\(\)\);', ''),
    (r'\.clone\(\)\.walk_star\(', '.clone().walk('), (r'walk_star\(', 'walk('),
    (r'\.walk\(([^)]*)\)', r'.\1XX'),  # placeholder, filtered out below
    (r'\bu\b', 'v'), (r'\bumin\b', 'umax'), (r'\bvmin\b', 'vmax'), (r'\bwmin\b', 'wmax'),
    (r'\bumax\b', 'umin'), (r'\bvmax\b', 'vmin'), (r'\bwmax\b', 'wmin'),
]


def src_files():
    fs = []
    for root, _, names in os.walk(os.path.join(REPO, 'src')):
        for n in names:
            if n.endswith('.rs') and n != 'verif.rs':
                fs.append(os.path.join(root, n))
    fs.append(os.path.join(REPO, 'macros/src/lib.rs'))
    return sorted(fs)


def code_lines(path):
    """(lineno, text) of lines outside #[cfg(test)] modules, comments, doc comments and attribute lines."""
    out = []
    lines = open(path).read().split('\n')
    in_test = False
    for i, l in enumerate(lines):
        s = l.strip()
        if s.startswith('#[cfg(test)]'):
            in_test = True  # test modules are at the end of the files in this repository
        if in_test:
            continue
        if not s or s.startswith('//') or s.startswith('#[') or s.startswith('use ') or s.startswith('///'):
            continue
        if 'terohuttunen_proto_vulcan_verif' in l or 'crate::verif' in l:
            continue
        if 'debug_assert' in l or 'panic!' in l or 'unreachable!' in l or 'write!(' in l or 'fmt::' in l:
            continue
        out.append((i, l))
    return out


def gen():
    os.makedirs(OUT, exist_ok=True)
    muts = []
    seen = set()
    for f in src_files():
        rel = os.path.relpath(f, REPO)
        for (i, l) in code_lines(f):
            code = l.split('//')[0]
            for (pat, rep) in RULES:
                if 'XX' in rep:
                    continue
                for m in re.finditer(pat, code):
                    new = code[:m.start()] + m.expand(rep) + code[m.end():] + l[len(code):]
                    if new == l:
                        continue
                    # generic brackets / lifetimes / arrows / closures are not operators
                    frag = code[max(0, m.start() - 2):m.end() + 2]
                    if '->' in frag or '=>' in frag or "'" in frag:
                        continue
                    key = (rel, i, new)
                    if key in seen:
                        continue
                    seen.add(key)
                    mid = 'X' + hashlib.sha1(('%s:%d:%s' % key).encode()).hexdigest()[:7]
                    muts.append({'id': mid, 'file': rel, 'line': i, 'old': l, 'new': new, 'rule': pat + ' -> ' + rep})
    json.dump(muts, open(os.path.join(OUT, 'list.json'), 'w'), indent=0)
    by = {}
    for m in muts:
        by[m['file']] = by.get(m['file'], 0) + 1
    for k in sorted(by):
        print('%4d %s' % (by[k], k))
    print(len(muts), 'mutants')


def sh(cmd, cwd=None, timeout=None, env=None):
    try:
        p = subprocess.run(cmd, shell=True, cwd=cwd, capture_output=True, text=True, timeout=timeout, env=env)
        return p.returncode, p.stdout + p.stderr
    except subprocess.TimeoutExpired as e:
        return 124, 'TIMEOUT'


def apply(root, m):
    p = os.path.join(root, m['file'])
    lines = open(p).read().split('\n')
    if lines[m['line']] != m['old']:
        return False
    lines[m['line']] = m['new']
    open(p, 'w').write('\n'.join(lines))
    return True


def filt(k, n):
    muts = json.load(open(os.path.join(OUT, 'list.json')))
    wt = os.path.join(OUT, 'w%d' % k)
    if not os.path.isdir(wt):
        sh('git -C /repo worktree add -q --detach %s HEAD' % wt)
        sh('cp /repo/Cargo.lock %s/' % wt)
    done = set()
    res_path = os.path.join(OUT, 'filter-%d.jsonl' % k)
    if os.path.exists(res_path):
        for l in open(res_path):
            done.add(json.loads(l)['id'])
    env = dict(os.environ, CARGO_NET_OFFLINE='true')
    for idx, m in enumerate(muts):
        if idx % n != k or m['id'] in done:
            continue
        sh('git checkout -q -- src macros', cwd=wt)
        if not apply(wt, m):
            status = 'stale'
        else:
            code, out = sh('timeout 600 cargo build --offline --workspace --lib 2>&1 | tail -3', cwd=wt, env=env)
            code, out = sh('cargo test --workspace --offline --lib --no-run 2>&1 | tail -5', cwd=wt, timeout=900, env=env)
            if 'error' in out and 'could not compile' in out:
                status = 'nocompile'
            else:
                code, out = sh('timeout 120 cargo test --workspace --offline --lib 2>&1 | grep -E "^test result|FAILED|panicked" | head -5', cwd=wt, timeout=200, env=env)
                if '185 passed; 0 failed' in out:
                    status = 'survivor'
                elif 'test result' in out:
                    status = 'testfail'
                else:
                    status = 'hang-or-crash'
        with open(res_path, 'a') as f:
            f.write(json.dumps({'id': m['id'], 'status': status}) + '\n')
    sh('git checkout -q -- src macros', cwd=wt)


CHECKS_FOR = [
    ('macros/', ['C14', 'C13', 'C15', 'C12', 'C11', 'C08']),
    ('src/state/fd.rs', ['C18', 'C16', 'C17', 'C23']),
    ('src/relation/clpfd', ['C16', 'C17', 'C04', 'C23']),
    ('src/relation/clpz', ['C19', 'C23']),
    ('src/relation/diseq', ['C02', 'C03', 'C04', 'C24']),
    ('src/relation/', ['C24', 'C02', 'C06']),
    ('src/state/constraint', ['C02', 'C22', 'C16', 'C03', 'C09']),
    ('src/state/substitution', ['C01', 'C03', 'C20', 'C02']),
    ('src/state/unification', ['C01', 'C20', 'C02']),
    ('src/state/', ['C16', 'C17', 'C02', 'C22', 'C03', 'C10', 'C19', 'C20', 'C04']),
    ('src/stream', ['C06', 'C05', 'C07', 'C09', 'C10']),
    ('src/solver', ['C06', 'C05', 'C08', 'C09']),
    ('src/engine', ['C06', 'C05', 'C07', 'C09']),
    ('src/operator/conda', ['C08', 'C13']),
    ('src/operator/condu', ['C08', 'C13']),
    ('src/operator/onceo', ['C08']),
    ('src/operator/project', ['C11']),
    ('src/operator/everyg', ['C12']),
    ('src/operator/anyo', ['C07', 'C14', 'C09']),
    ('src/operator/', ['C06', 'C05', 'C07', 'C10', 'C14', 'C04']),
    ('src/lterm', ['C21', 'C03', 'C01', 'C20', 'C14']),
    ('src/compound', ['C20', 'C01', 'C03']),
    ('src/query', ['C03', 'C09', 'C14', 'C17']),
    ('src/goal', ['C06', 'C05', 'C14']),
    ('src/user', ['C22']),
    ('src/lresult', ['C03', 'C14', 'C20']),
    ('src/lvalue', ['C21', 'C14', 'C03']),
    ('src/', ['C06', 'C02', 'C16', 'C03']),
]


def checks_for(path):
    for (pre, cs) in CHECKS_FOR:
        if path.startswith(pre):
            return cs
    return ['C06']


def statuses():
    st = {}
    for f in os.listdir(OUT):
        if f.startswith('filter-') and f.endswith('.jsonl'):
            for l in open(os.path.join(OUT, f)):
                d = json.loads(l)
                st[d['id']] = d['status']
    return st


def survivors():
    muts = json.load(open(os.path.join(OUT, 'list.json')))
    st = statuses()
    return [m for m in muts if st.get(m['id']) == 'survivor']


def sampled():
    """Survivors that go to the kill stage: the debugger is outside the properties; at most CAP per file
    (evenly spaced), because bound-arithmetic files yield dozens of near-identical mutants."""
    by = {}
    for m in survivors():
        if m['file'].startswith('src/debugger'):
            continue
        by.setdefault(m['file'], []).append(m)
    out = []
    for f, ms in sorted(by.items()):
        cap = 24 if f.startswith('macros') else (18 if 'stream' in f else 12)
        if len(ms) > cap:
            step = len(ms) / float(cap)
            ms = [ms[int(i * step)] for i in range(cap)]
        out.extend(ms)
    return out


def kill(suffix, k, n, tier='quick'):
    sv = sampled()
    krepo = '/tmp/krepo' + suffix
    kv = '/tmp/kv' + suffix
    res_path = os.path.join(OUT, 'kill-%d.jsonl' % k)
    done = set()
    if os.path.exists(res_path):
        for l in open(res_path):
            done.add(json.loads(l)['id'])
    env = dict(os.environ, PVMON_REPO=krepo, PVMON_SKIP_MIRI='1', CARGO_NET_OFFLINE='true')
    for idx, m in enumerate(sv):
        if idx % n != k or m['id'] in done:
            continue
        sh('git checkout -q -- .', cwd=krepo)
        if not apply(krepo, m):
            continue
        killed_by = None
        log = []
        for c in checks_for(m['file'])[:4]:
            code, out = sh('./check %s %s 2>&1 | grep -E "verdict=|monitor=|INCONCLUSIVE" | head -4 | cut -c1-300' % (c, tier), cwd=kv, timeout=2400, env=env)
            log.append((c, out.strip()[:700]))
            if 'verdict=violated' in out:
                killed_by = c
                break
        with open(res_path, 'a') as f:
            f.write(json.dumps({'id': m['id'], 'file': m['file'], 'line': m['line'] + 1, 'old': m['old'].strip(), 'new': m['new'].strip(), 'killed_by': killed_by, 'log': log}) + '\n')
    sh('git checkout -q -- .', cwd=krepo)


if __name__ == '__main__':
    cmd = sys.argv[1]
    if cmd == 'gen':
        gen()
    elif cmd == 'filter':
        filt(int(sys.argv[2]), int(sys.argv[3]))
    elif cmd == 'survivors':
        st = statuses()
        from collections import Counter
        print(Counter(st.values()))
        for m in survivors():
            print(m['id'], '%s:%d' % (m['file'], m['line'] + 1), '|', m['old'].strip()[:90], '=>', m['new'].strip()[:90])
    elif cmd == 'sampled':
        print(len(sampled()))
    elif cmd == 'rekill':
        # rekill <env suffix> <mutant id> <check>... : run further checks against one mutant
        suffix, mid = sys.argv[2], sys.argv[3]
        m = [x for x in json.load(open(os.path.join(OUT, 'list.json'))) if x['id'] == mid][0]
        krepo, kv = '/tmp/krepo' + suffix, '/tmp/kv' + suffix
        env = dict(os.environ, PVMON_REPO=krepo, PVMON_SKIP_MIRI='1', CARGO_NET_OFFLINE='true')
        sh('git checkout -q -- .', cwd=krepo)
        assert apply(krepo, m)
        for c in sys.argv[4:]:
            code, out = sh('./check %s quick 2>&1 | grep -E "verdict=|monitor=|INCONCLUSIVE" | head -3 | cut -c1-300' % c, cwd=kv, timeout=2400, env=env)
            print(mid, c, out.strip())
            with open(os.path.join(OUT, 'rekill.jsonl'), 'a') as f:
                f.write(json.dumps({'id': mid, 'check': c, 'out': out.strip()[:600]}) + '\n')
        sh('git checkout -q -- .', cwd=krepo)
    elif cmd == 'report':
        # markdown summary of the whole sweep (filter + kill + rekill), written to stdout
        from collections import Counter
        st = statuses()
        muts = {m['id']: m for m in json.load(open(os.path.join(OUT, 'list.json')))}
        kills = {}
        for f in sorted(os.listdir(OUT)):
            if f.startswith('kill-') and f.endswith('.jsonl'):
                for l in open(os.path.join(OUT, f)):
                    d = json.loads(l)
                    kills[d['id']] = d
        rek = {}
        if os.path.exists(os.path.join(OUT, 'rekill.jsonl')):
            for l in open(os.path.join(OUT, 'rekill.jsonl')):
                d = json.loads(l)
                if 'verdict=violated' in d['out']:
                    rek.setdefault(d['id'], d['check'])
        c = Counter(st.values())
        print('# Systematic single-line mutant sweep (tools/mutate.py)\n')
        print('%d mutants generated from %d rules over src/ and macros/src/lib.rs (test modules, comments, Display code and the verif hooks excluded).\n' % (len(muts), len(RULES)))
        print('| stage | count |\n|---|---|')
        print('| do not compile | %d |' % c.get('nocompile', 0))
        print('| fail the 185 tests | %d |' % c.get('testfail', 0))
        print('| hang / crash the test run (killed by the suite, 120 s cap) | %d |' % c.get('hang-or-crash', 0))
        print('| compile and pass all 185 tests (survivors) | %d |' % c.get('survivor', 0))
        print('| survivors sent to the monitors (sampled: <= 12 per file, 24 for the macro crate, 18 for stream.rs; debugger excluded) | %d |' % len(kills))
        killed = {k: v['killed_by'] for k, v in kills.items() if v['killed_by']}
        for k, chk in rek.items():
            if k in kills and k not in killed:
                killed[k] = chk + ' (second pass)'
        print('| of those, reported as VIOLATION by a quick check | %d |' % len(killed))
        print('| not reported | %d |\n' % (len(kills) - len(killed)))
        print('## Killed (mutant, site, change, first check that fired)\n')
        for k in sorted(killed, key=lambda x: (kills[x]['file'], kills[x]['line'])):
            d = kills[k]
            print('- `%s` %s:%d `%s` -> `%s` : **%s**' % (k, d['file'], d['line'], d['old'][:70], d['new'][:70], killed[k]))
        print('\n## Not reported (see the triage in DESIGN.md 10.5)\n')
        for k in sorted(kills, key=lambda x: (kills[x]['file'], kills[x]['line'])):
            if k in killed:
                continue
            d = kills[k]
            print('- `%s` %s:%d `%s` -> `%s` (ran %s)' % (k, d['file'], d['line'], d['old'][:70], d['new'][:70], ', '.join(c for c, _ in d['log'])))
    elif cmd == 'rekill-all':
        # rekill-all <env suffix> <k> <n>: second pass over the mutants the first pass did not kill,
        # with the current harness and the checks the first pass did not run
        suffix, k, n = sys.argv[2], int(sys.argv[3]), int(sys.argv[4])
        EXTRA = [
            ('macros/', ['C20', 'C05', 'C11', 'C21', 'C08']),
            ('src/lresult', ['C21']), ('src/lvalue', ['C21']), ('src/lterm', ['C21', 'C11', 'C23']),
            ('src/compound', ['C21', 'C20']),
            ('src/operator/conj', ['C05', 'C08', 'C12']), ('src/operator/', ['C05', 'C08', 'C09']),
            ('src/goal', ['C05', 'C07', 'C09']),
            ('src/stream', ['C05', 'C06', 'C07', 'C09', 'C10', 'C08']),
            ('src/state/', ['C16', 'C02', 'C03', 'C19', 'C20', 'C04', 'C24', 'C23']),
            ('src/relation/clpfd', ['C16', 'C17', 'C04', 'C10']),
            ('src/relation/clpz', ['C19', 'C10']),
            ('src/', ['C06', 'C02', 'C23']),
        ]
        kills = {}
        for f in sorted(os.listdir(OUT)):
            if f.startswith('kill-') and f.endswith('.jsonl'):
                for l in open(os.path.join(OUT, f)):
                    d = json.loads(l)
                    kills[d['id']] = d
        todo = [d for d in kills.values() if not d['killed_by']]
        todo.sort(key=lambda d: d['id'])
        muts = {m['id']: m for m in json.load(open(os.path.join(OUT, 'list.json')))}
        krepo, kv = '/tmp/krepo' + suffix, '/tmp/kv' + suffix
        env = dict(os.environ, PVMON_REPO=krepo, PVMON_SKIP_MIRI='1', CARGO_NET_OFFLINE='true')
        for idx, d in enumerate(todo):
            if idx % n != k:
                continue
            m = muts[d['id']]
            extra = []
            for pre, cs in EXTRA:
                if m['file'].startswith(pre):
                    extra = cs
                    break
            sh('git checkout -q -- .', cwd=krepo)
            if not apply(krepo, m):
                continue
            for c in extra:
                code, out = sh('./check %s quick 2>&1 | grep -E "verdict=|monitor=|INCONCLUSIVE" | head -3 | cut -c1-300' % c, cwd=kv, timeout=2400, env=env)
                with open(os.path.join(OUT, 'rekill.jsonl'), 'a') as f:
                    f.write(json.dumps({'id': m['id'], 'check': c, 'out': out.strip()[:600]}) + '\n')
                if 'verdict=violated' in out:
                    break
        sh('git checkout -q -- .', cwd=krepo)
    elif cmd == 'kill':
        kill(sys.argv[2], int(sys.argv[3]), int(sys.argv[4]), sys.argv[5] if len(sys.argv) > 5 else 'quick')
