#!/usr/bin/env python3
"""Regenerate /verif/MANIFEST.json from the table below (run after adding a check)."""
import json, os, subprocess

ROOT = "/verif"
ALL = ["C%02d" % i for i in range(1, 25)]

# id -> (level text, level note, technique, design ref)
CLAIMED = {}


def claim(pid, text, note, technique):
    CLAIMED[pid] = (text, note, technique, "DESIGN.md section 4 " + pid)


exec(open(os.path.join(ROOT, "tools", "claims.py")).read())

hook_commits = subprocess.run(
    ["git", "-C", "/repo", "log", "--format=%h", "--grep=^verif hooks"], capture_output=True, text=True
).stdout.split()

checks = []
for pid in ALL:
    if pid not in CLAIMED:
        continue
    text, note, technique, ref = CLAIMED[pid]
    checks.append(
        {
            "property_id": pid,
            "quick_cmd": "./check %s quick" % pid,
            "thorough_cmd": "./check %s thorough" % pid,
            "evidence_file": "/verif/evidence/%s.json" % pid,
            "replay_cmd_template": "./check %s --replay {path}" % pid,
            "engine": "pvmon/pvcheck",
            "level_claimed": {"category": "exploration", "text": text, "design_ref": ref},
            "level_note": note,
            "technique": technique,
        }
    )

na_reasons = {}
na_path = os.path.join(ROOT, "tools", "not_applicable.json")
if os.path.exists(na_path):
    na_reasons = json.load(open(na_path))

not_applicable = []
for pid in ALL:
    if pid not in CLAIMED:
        not_applicable.append(
            {
                "property_id": pid,
                "reason": na_reasons.get(
                    pid,
                    "not claimed yet: the runtime monitor designed for it (DESIGN.md section 4) is not registered because it has not been built and validated on the unchanged tree",
                ),
            }
        )

manifest = {
    "version": 1,
    "setup_cmd": "cd /verif/harness && CARGO_NET_OFFLINE=true cargo build --offline --bin pvcheck && (CARGO_NET_OFFLINE=true MIRIFLAGS='-Zmiri-disable-isolation -Zmiri-ignore-leaks' CARGO_TARGET_DIR=/verif/harness/target/miri-lane cargo +nightly miri run --offline -q -p pvmon --bin pvcheck -- mirilane C11 quick 1 nodirect '' || true)",
    "hooks": {
        "guard": "terohuttunen_proto_vulcan_verif",
        "enable": 'RUSTFLAGS="--cfg terohuttunen_proto_vulcan_verif" (set in /verif/harness/.cargo/config.toml; the harness depends on proto-vulcan by path = /repo)',
        "baseline_off_cmd": "cd /repo && cargo test --workspace --no-fail-fast --offline",
        "source_commits": hook_commits,
        "add_only": True,
    },
    "engines": [
        {
            "name": "pvmon/pvcheck",
            "path": "/verif/harness",
            "serves_properties": sorted(CLAIMED.keys()),
            "kind_free_text": "Rust harness: program generators, reference-model / metamorphic / invariant monitors over executions of the real engine (hooks on), worker processes, evidence writer; Miri lane for the unsafe projection write",
        }
    ],
    "checks": checks,
    "notes": "Runtime monitoring only (reference-model, metamorphic and invariant monitors over generated executions of the real code; Miri for the one unsafe block). Exit codes: 0 held on everything observed, 1 VIOLATION, 2 INCONCLUSIVE (harness could not decide; never a verdict). See DESIGN.md.",
    "not_applicable": not_applicable,
}
json.dump(manifest, open(os.path.join(ROOT, "MANIFEST.json"), "w"), indent=1)
print("claimed:", sorted(CLAIMED.keys()))
print("not claimed:", [x["property_id"] for x in not_applicable])
