#!/usr/bin/env python3
import json, jsonschema, glob, sys
ok = True
try:
    jsonschema.validate(json.load(open('/verif/MANIFEST.json')), json.load(open('/root/.vp/MANIFEST.schema.json')))
    print('manifest valid')
except Exception as e:
    ok = False; print('MANIFEST INVALID', str(e)[:300])
sch = json.load(open('/root/.vp/EVIDENCE.schema.json'))
for f in sorted(glob.glob('/verif/evidence/*.json')):
    try:
        jsonschema.validate(json.load(open(f)), sch)
    except Exception as e:
        ok = False; print('EVIDENCE INVALID', f, str(e)[:300])
print('evidence files checked:', len(glob.glob('/verif/evidence/*.json')))
sys.exit(0 if ok else 1)
