#!/bin/bash
# usage: try_seeded.sh <seeded dir> <tier> <check id>...   — apply the seeded patch to /repo, run the checks, undo.
D=$1; TIER=$2; shift 2
cd /repo || exit 3
if [ -n "$(git status --porcelain --untracked-files=no)" ]; then echo "/repo not clean"; exit 3; fi
git apply $D/patch.diff || { echo "PATCH-DOES-NOT-APPLY $D"; exit 3; }
trap 'git -C /repo checkout -q -- . ' EXIT
for id in "$@"; do
  OUT=$(cd /verif && ./check $id $TIER 2>&1)
  CODE=$?
  echo "[$(basename $D)] $id $TIER exit=$CODE :: $(echo "$OUT" | grep -E "verdict=" | tail -1)"
  echo "$OUT" | grep -E "monitor=" | head -3 | cut -c1-260
  echo "$OUT" | grep -E "INCONCLUSIVE" | head -3 | cut -c1-260
done
