#!/bin/bash
# usage: final_sweep.sh <env suffix> <seed>...   quick checks of every property at the given seeds in the
# isolated copy /tmp/kv<S> (unchanged worktree /tmp/krepo<S>); prints one line per check.
S=$1; shift
cd /tmp/krepo$S && git checkout -q -- . && cd /tmp/kv$S || exit 3
for seed in "$@"; do
  for id in C01 C02 C03 C04 C05 C06 C07 C08 C09 C10 C11 C12 C13 C14 C15 C16 C17 C18 C19 C20 C21 C22 C23 C24; do
    VERIF_SEED=$seed PVMON_REPO=/tmp/krepo$S ./check $id quick 2>&1 | grep -E "verdict=|VIOLATION|INCONCLUSIVE|monitor=" | cut -c1-300
  done
done
