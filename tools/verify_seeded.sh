#!/bin/bash
# usage: verify_seeded.sh <dir with patch.diff + seeded_demo.rs> [worktree]
# Confirms: patch applies to /repo HEAD, crate tests pass with it, demo fails with it and passes without.
set -u
D=$1; WT=${2:-/tmp/vs_wt}
export CARGO_NET_OFFLINE=true
if [ ! -d $WT ]; then git -C /repo worktree add -q --detach $WT HEAD || exit 3; cp /repo/Cargo.lock $WT/; fi
cd $WT && git checkout -q -- . && git clean -fdq -e target -e Cargo.lock && git checkout -q --detach $(git -C /repo rev-parse HEAD)
git apply $D/patch.diff || { echo "RESULT patch-does-not-apply"; exit 3; }
SUITE=$(cargo test --workspace --offline --lib 2>&1 | grep -E "^test result" | head -3 | tr '\n' ' ')
mkdir -p tests; cp $D/seeded_demo.rs tests/seeded_demo.rs
WITH=$(timeout 600 cargo test --offline --test seeded_demo 2>&1 | grep -E "^test result|error(\[|:)" | head -3 | tr '\n' ' ')
git checkout -q -- src macros
WITHOUT=$(timeout 600 cargo test --offline --test seeded_demo 2>&1 | grep -E "^test result|error(\[|:)" | head -3 | tr '\n' ' ')
rm -f tests/seeded_demo.rs
echo "RESULT suite-with-patch: $SUITE"
echo "RESULT demo-with-patch: $WITH"
echo "RESULT demo-without-patch: $WITHOUT"
