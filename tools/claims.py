# Per-property claims, executed by gen_manifest.py. Keep texts honest: "held on what was observed".
claim("C02",
      "Reference-model + metamorphic runtime monitor: generated pure tree programs (==, !=, conj, conde, fresh; hostile subsuming/duplicate disequality pairs) are run on the real engine; the answers' ground instances over a finite universe are compared with an independent reference interpreter (itself cross-checked against truth tables on the fresh-free fragment) and with every permutation of the top-level conjunction; state invariants are asserted at probes after every goal. Held on the executions observed; nothing is proved.",
      "Trusted: pvmon::refsem (Robinson unification + re-checked raw disequalities), the finite universe (program atoms + 2 fresh atoms + short lists + compounds); answers with >3 free variables compared on tuples only.",
      "runtime monitoring: reference-model and permutation-metamorphic oracles over generated programs, state-invariant probes")
claim("C18",
      "Model-based runtime monitor: every public FiniteDomain operation is executed on the real type and compared with BTreeSet<isize>; exhaustive over all domains of a small signed window in both representations (all ordered pairs), plus isize extremes and random larger domains. Held on the executions observed, nothing is proved.",
      "Trusted: std BTreeSet as the model; the window bound (-3..=3 quick, -4..=4 thorough).",
      "runtime monitoring: model-based oracle (BTreeSet) over exhaustively enumerated small domains")
claim("C03",
      "Structural runtime monitor on every reported answer of generated programs that nest free and constrained variables in lists, improper tails and compound fields and post disequalities against hidden variables: variable names, closedness of reported constraints, LResult::constraints()/is_constrained() against the harness's own deep variable walk, and the sharing pattern of reified variables against the reference interpreter. Held on the answers observed; nothing is proved.",
      "Trusted: harness conversion of LTerm to its own term type through CompoundObject::children/type_name; reading of 'constraint on a variable' as operand (key or variable value) of the disequality; pvmon::refsem for sharing.",
      "runtime monitoring: structural invariant monitor over observed answers + reference-model comparison of tuples")
claim("C01",
      "Reference-model runtime monitor in lock-step: sequences of unifications run on a real State (State::unify) and on a textbook Robinson unifier; after every step the success bit, the identity of both walked sides, variant-equality with the reference MGU over all variables, and acyclicity of the substitution (own fuel-bounded walker, before any real walk*) are checked; clean sequences are re-run as whole queries against the reference answers. Enumerated over all ordered pairs of small terms under 10 prior bindings, plus hostile cycle-closing and random sequences. Held on the executions observed; nothing is proved.",
      "Trusted: pvmon::term::Subst (reference unifier), conversion of LTerm to the harness term type via CompoundObject::children/type_name.",
      "runtime monitoring: lock-step reference-model oracle over enumerated and generated unification sequences")
claim("C20",
      "Metamorphic + reference-model runtime monitor: every generated program over Pair/Triple/Named/tuple/Option compounds is run together with its tagged-list twin (a homomorphic encoding with constant heads) and the answers must correspond as multisets of ground-instance sets; both are also compared with the reference interpreter; FD labeling inside compound fields is covered by a dedicated generator; the C03 structural monitor runs on every answer. Held on the executions observed.",
      "Trusted: the encoding (all structure heads are constant tags, so it is a homomorphism for unification); pvmon::refsem; finite instance universe.",
      "runtime monitoring: metamorphic twin-program oracle + reference-model comparison over generated programs")
claim("C16",
      "Reference-model and arithmetic runtime monitor: generated FD programs (arbitrary operand aliasing, constants, signed interval and sparse domains, every posting order, hidden variables, distinctfd with repeated variables and pre-bound elements) are run on several fresh threads (different hash seeds => different constraint wake-up and labeling orders); every answer must be a brute-force solution and satisfy every constraint by direct integer arithmetic; state invariants (no variable both bound and holding a domain, no empty/singleton stored domain) are asserted at a probe after every goal and at every final state. Held on the executions observed.",
      "Trusted: brute-force enumeration of the domain product (pvmon::refsem::label) and the direct evaluator (checks::fd::eval_flat); generator emits only well-formed programs.",
      "runtime monitoring: brute-force reference oracle + arithmetic answer checker + state-invariant probes, repeated under several hash seeds")
claim("C17",
      "Reference-model runtime monitor: for the same generated FD programs, on every one of several fresh-thread runs (different hash seeds) the multiset of query-variable projections of the answers must equal the set of distinct projections of the brute-force solutions; query variables bound to integers, lists, improper lists and compound terms of FD variables; hidden FD variables; negative and mixed-sign domains. Held on the executions observed.",
      "Trusted: brute-force enumeration of the domain product (pvmon::refsem::label).",
      "runtime monitoring: brute-force reference oracle (multiset equality) over generated programs, repeated under several hash seeds")
claim("C19",
      "Reference-model runtime monitor: plusz/timesz programs run on the real engine and compared with an integer model; enumerated over every groundness pattern, literal/variable spelling, value in -3..=3 and every interleaving of the constraint with the bindings of its operands, plus random aliased and chained constraints; panics are violations. Held on the executions observed.",
      "Trusted: the integer model with wake-on-two-ground propagation (pvmon::refsem::settle).",
      "runtime monitoring: reference-model oracle over enumerated posting orders and generated constraint chains")
claim("C05",
      "Reference-model runtime monitor over answer sequences: generated finite-tree programs (nested cond of 2-6 clauses, multi-answer conjunctions, member/append/rember, recursive closures, match with alternatives, ==, !=) wrapped in dfs { } are run through the public query iterator and compared position by position with an independent depth-first interpreter; hook H2 path counters must show that mplus_dfs was entered with Empty/Unit/Lazy/Cons and bind_dfs with Unit/Lazy/Cons streams, otherwise the run is inconclusive; violations are shrunk. Held on the executions observed.",
      "Trusted: pvmon::refsem depth-first order; H2 counters only gate 'inconclusive'.",
      "runtime monitoring: reference-model oracle on recorded answer sequences + path-coverage hooks")
claim("C06",
      "Metamorphic + reference-model runtime monitor: the same generated finite-tree program is run with the default interleaving search, wrapped in dfs { }, and on the reference interpreter, and the three answer multisets (tuples up to renaming, equal ground-instance sets) must agree; for programs made infinite with always()/loop prefixes each of the first 30 answers must be an answer under the set reading; H2 counters must show every arm of mplus and bind and the Delay chain of conde. Held on the executions observed.",
      "Trusted: pvmon::refsem; finite instance universe; for infinite streams only a 30-answer prefix is decided.",
      "runtime monitoring: metamorphic (BFS vs DFS) and reference-model oracles over generated programs + path-coverage hooks")
claim("C07",
      "Bounded-progress runtime monitor in logical time (engine steps from hook H1): every branch of a generated disjunction (conde / match / matche; infinite producers, silent divergers incl. pause-only closures, finite goals; top level, after a prefix, nested) is run alone, and every answer it yields within 6000 steps must also come out of the whole disjunction within F = 64*2^(k*d)*(s+16) steps; a budget overrun with awaited answers outstanding is the refuting event. Unbounded fairness is NOT decided; only this bounded restatement, on the executions observed.",
      "Trusted: the fixed bound F (2-3 orders of magnitude above the unchanged engine's need); step meter hook H1.",
      "runtime monitoring: bounded-progress oracle on hooked engine step counts (branch alone vs. in the disjunction)")
claim("C08",
      "Metamorphic (decomposition) + reference-model runtime monitor: for generated `prefix, OP{[head, rest...]...}` programs the committed clause is determined by running each head on the real engine, and the operator's answers must equal, as a multiset, those of `prefix, head, rest` (conda) or `prefix, <first engine answer of the head>, rest` (condu/onceo); wherever the soft-cut semantics is unambiguous the reference interpreter is compared too; matcha/matchu go through the macro's expansion shape; nested committed choice in rest goals makes conjunct order observable; H2 counters must show Solver::peek and Solver::trunc stepping lazy streams. Held on the executions observed.",
      "Trusted: the engine itself for WHICH head answer is first (the property's wording); pvmon::refsem soft-cut interpreter; heads bind query variables to ground terms only.",
      "runtime monitoring: decomposition-metamorphic oracle (operator vs committed clause run separately) + reference-model comparison")
claim("C04",
      "Metamorphic runtime monitor, real engine vs real engine: generated terminating tree / FD / mixed programs are run in their written order and in every permutation of the main conjunction (all if <= 4 goals) plus random simultaneous permutations of every conjunction and disjunction at every nesting level, each on a fresh thread (fresh hash seeds); the answer multisets (ground-instance sets) must coincide. Held on the executions observed.",
      "Trusted: nothing beyond the comparison relation (finite instance universe); no reference model.",
      "runtime monitoring: permutation-metamorphic oracle between executions of the real engine")
claim("C09",
      "Runtime monitor over recorded answer sequences: the same Query value run twice, the rebuilt program, 5-8 fresh threads and (xproc lane) 2 fresh processes must yield identical sequences up to renaming of reified variables and order within constraint sets; differences are classified representation-only / order-only / semantic; every exhausted iterator is probed 3 more times (fusedness); infinite-stream programs must deliver 12 answers within 2*10^6 engine steps (hook H1; bounded restatement of laziness). Held on the executions observed.",
      "Trusted: fresh threads/processes as stand-ins for different hash seeds; the step bound for laziness.",
      "runtime monitoring: cross-run comparison of recorded answer sequences under different hash seeds; bounded-progress step monitor")
claim("C10",
      "Metamorphic + snapshot-immutability runtime monitor: for generated `prefix, conde{A,B[,C]}, suffix` programs whose prefix posts constraints/domains that every branch wakes (shared DistinctFd2Constraint objects, shared domains, shared disequalities), the combined answers must equal the union of the branches run separately; a clone of the state is retained at every probe with an order-insensitive fingerprint (substitution, constraint internals, domains, user state) and re-fingerprinted when the whole search is over; every answer's user-state tag trail must be the trail of its own branch. Held on the executions observed.",
      "Trusted: derived Debug output as the fingerprint of constraint internals; pvmon::refsem for tag trails.",
      "runtime monitoring: snapshot-immutability invariant on retained state clones + decomposition-metamorphic oracle + user-state event trails")
claim("C11",
      "Runtime monitor built into every project body (start and end, i.e. also after suspension and resumption): walk*(projected term) must equal walk*(original variable) in the state that runs the body; generated programs make 1..n states (member, conde, shared structured terms with differently bound inner variables, loop prefixes) reach the same project goal, with multi-goal and nested-project bodies; answers are compared with the reference (project = walk*), the same Query value is run twice, panics are violations. Held on the executions observed.",
      "Trusted: the harness builder mirrors the macro expansion of project; pvmon::refsem.",
      "runtime monitoring: in-body value-consistency monitor (fngoal probes) + reference-model comparison + repeated-run comparison")
