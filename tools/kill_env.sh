#!/bin/bash
# Prepare an isolated copy for kill-matrix runs: /tmp/kv (copy of /verif's tracked files, harness
# pointed at /tmp/krepo) and /tmp/krepo (a worktree of /repo's HEAD). Mutants are applied to
# /tmp/krepo only, so neither /repo nor /verif is touched.
set -e
rm -rf /tmp/kv; mkdir -p /tmp/kv
git -C /verif archive HEAD | tar -x -C /tmp/kv
sed -i 's#path = "/repo"#path = "/tmp/krepo"#' /tmp/kv/harness/pvmon/Cargo.toml
if [ -d /tmp/krepo ]; then git -C /repo worktree remove --force /tmp/krepo || rm -rf /tmp/krepo; fi
git -C /repo worktree prune
git -C /repo worktree add -q --detach /tmp/krepo HEAD
cp /repo/Cargo.lock /tmp/krepo/
echo "kill env ready: /tmp/kv (harness -> /tmp/krepo)"
