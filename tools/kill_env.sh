#!/bin/bash
# Prepare an isolated copy for kill-matrix runs: /tmp/kv$S (copy of /verif's tracked files, harness
# pointed at /tmp/krepo$S) and /tmp/krepo$S (a worktree of /repo's HEAD). Mutants are applied to
# /tmp/krepo$S only, so neither /repo nor /verif is touched.
set -e
S=${1:-}   # optional suffix for a second, independent environment (e.g. "2")
rm -rf /tmp/kv$S; mkdir -p /tmp/kv$S
git -C /verif archive HEAD | tar -x -C /tmp/kv$S
sed -i "s#path = \"/repo\"#path = \"/tmp/krepo$S\"#" /tmp/kv$S/harness/pvmon/Cargo.toml
if [ -d /tmp/krepo$S ]; then git -C /repo worktree remove --force /tmp/krepo$S || rm -rf /tmp/krepo$S; fi
git -C /repo worktree prune
git -C /repo worktree add -q --detach /tmp/krepo$S HEAD
cp /repo/Cargo.lock /tmp/krepo$S/
echo "kill env ready: /tmp/kv$S (harness -> /tmp/krepo$S)"
